#!/usr/bin/env python3
"""Regenerate /verif/MANIFEST.json from harness/specs.py (keeps it consistent with what is claimed)."""
import json, sys
sys.path.insert(0, '/verif')
from harness import specs

BASE = "cd /repo && cargo nextest run --workspace --no-fail-fast --test-threads 8 --offline || cargo test --workspace --no-fail-fast --offline"
checks = []
for pid in sorted(specs.PROPS):
    sp = specs.PROPS[pid]
    checks.append(dict(
        property_id=pid,
        quick_cmd='python3 /verif/run_check.py %s --tier quick' % pid,
        thorough_cmd='python3 /verif/run_check.py %s --tier thorough' % pid,
        evidence_file='/verif/evidence/%s.json' % pid,
        replay_cmd_template='python3 /verif/run_check.py %s --replay {path}' % pid,
        engine='kani-cbmc',
        technique=sp.get('technique', 'bounded model checking (Kani 0.68 -> CBMC 6.11 / CaDiCaL SAT) of the real functions on symbolic inputs, differential against in-harness reference models'),
        level_claimed=dict(category='model_checking', text=sp['level_text'], design_ref=sp.get('design_ref', 'DESIGN.md section 4 ' + pid)),
        level_note=sp.get('level_note', 'Bounded: holds for every value inside the harness shapes listed in the evidence; trusted base = Kani MIR->GOTO translation, CBMC/CaDiCaL, the fixed-block allocator model (khome/kani_lib_lazy.c), the in-harness reference models, and the stubs named in the evidence.'),
    ))
na = [dict(property_id=k, reason=v) for k, v in sorted(specs.NOT_APPLICABLE.items()) if k not in specs.PROPS]
import json as _j
allp = [_j.loads(l)['id'] for l in open('/verif/properties.jsonl')]
for q in allp:
    if q not in specs.PROPS and q not in specs.NOT_APPLICABLE:
        na.append(dict(property_id=q, reason='check not built yet (planned in DESIGN.md section 4); not claimed until its harness family is admitted'))
na.sort(key=lambda x: x['property_id'])
m = dict(
    version=1,
    setup_cmd='bash /verif/setup.sh',
    hooks=dict(guard='cfg(kani) in a scratch overlay copy of /repo (no source hooks committed to /repo)',
               enable='run_check.py copies /repo/{src,Cargo.toml,Cargo.lock} to a scratch dir, appends `#[cfg(kani)] #[path=...] mod k_*;` lines to the copies and compiles them with `cargo kani --only-codegen`',
               baseline_off_cmd=BASE, source_commits=[], add_only=True),
    engines=[dict(name='kani-cbmc', path='/verif/run_check.py', serves_properties=sorted(specs.PROPS),
                  kind_free_text='Kani 0.68 compiles the real crate + harness modules to GOTO; run_check.py drives goto-cc/goto-instrument/CBMC 6.11 (CaDiCaL) per harness with a fixed-block allocator model, interprets every property, replays counterexamples natively via Kani concrete playback')],
    checks=checks,
    not_applicable=na,
    notes='Exit codes of every check: 0 held on everything explored (KNOWN-FINDING lines possible), 1 VIOLATION (counterexample replayed natively), 2 INCONCLUSIVE (overlay does not compile, timeout, memory, bound exceeded, non-reproducing counterexample).',
)
json.dump(m, open('/verif/MANIFEST.json', 'w'), indent=1)
print('checks:', [c['property_id'] for c in checks], 'n/a:', [n['property_id'] for n in na])
