// Copyright Kani Contributors
// SPDX-License-Identifier: Apache-2.0 OR MIT
#include <stddef.h>
#include <stdint.h>
#ifndef KANI_ARENA
#define KANI_ARENA 64
#endif
#ifndef KANI_ARENA_BIG
#define KANI_ARENA_BIG KANI_ARENA
#endif
/* Requests whose size is a constant after constant propagation and exceeds the arena get the big block
   (e.g. a BTreeMap leaf node); everything else gets the fixed small block. */
#define KANI_BLOCK(size) ((__builtin_constant_p(size) && (size) > KANI_ARENA) ? KANI_ARENA_BIG : KANI_ARENA)

// Declare functions instead of importing more headers in order to avoid conflicting definitions.
// See https://github.com/model-checking/kani/issues/1774 for more details.
void  free(void *ptr);
void *memcpy(void *dst, const void *src, size_t n);
void *calloc(size_t nmemb, size_t size);
void *malloc(size_t size);

/// Mapping unit to `void` works for functions with no return type but not for
/// variables with type unit. We treat both uniformly by declaring an empty
/// struct type: `struct Unit {}` and a global variable `struct Unit VoidUnit`
/// returned by all void functions (both declared by the Kani compiler).
struct Unit;
extern struct Unit VoidUnit;

// `assert` then `assume`
#define __KANI_assert(cond, msg)            \
    do {                                    \
        __CPROVER_bool __KANI_temp = (cond);          \
        __CPROVER_assert(__KANI_temp, msg); \
        __CPROVER_assume(__KANI_temp);      \
    } while (0)

// Check that the input is either a power of 2, or 0. Algorithm from Hackers Delight.
__CPROVER_bool __KANI_is_nonzero_power_of_two(size_t i) { return (i != 0) && (i & (i - 1)) == 0; }

// This is a C implementation of the __rust_alloc function.
// https://stdrs.dev/nightly/x86_64-unknown-linux-gnu/alloc/alloc/fn.__rust_alloc.html
// It has the following Rust signature:
//   `unsafe fn __rust_alloc(size: usize, align: usize) -> *mut u8`
// This low-level function is called by std::alloc:alloc, and its
// implementation is provided by the compiler backend, so we need to provide an
// implementation for it to prevent verification failure due to missing function
// definition.
// For safety, refer to the documentation of GlobalAlloc::alloc:
// https://doc.rust-lang.org/std/alloc/trait.GlobalAlloc.html#tymethod.alloc
uint8_t *__rust_alloc(size_t size, size_t align)
{
    __KANI_assert(size > 0, "__rust_alloc must be called with a size greater than 0");
    // TODO: Ensure we are doing the right thing with align
    // https://github.com/model-checking/kani/issues/1168
    __KANI_assert(__KANI_is_nonzero_power_of_two(align), "Alignment is power of two");
    return malloc(KANI_BLOCK(size));
}

// This is a C implementation of the __rust_alloc_zeroed function.
// https://stdrs.dev/nightly/x86_64-unknown-linux-gnu/alloc/alloc/fn.__rust_alloc_zeroed.html
// It has the following Rust signature:
//   unsafe fn __rust_alloc_zeroed(size: usize, align: usize) -> *mut u8
// This low-level function is called by std::alloc:alloc_zeroed, and its
// implementation is provided by the compiler backend, so we need to provide an
// implementation for it to prevent verification failure due to missing function
// definition.
// For safety, refer to the documentation of GlobalAlloc::alloc_zeroed:
// hhttps://doc.rust-lang.org/std/alloc/fn.alloc_zeroed.html
uint8_t *__rust_alloc_zeroed(size_t size, size_t align)
{
    __KANI_assert(size > 0, "__rust_alloc_zeroed must be called with a size greater than 0");
    // TODO: Ensure we are doing the right thing with align
    // https://github.com/model-checking/kani/issues/1168
    __KANI_assert(__KANI_is_nonzero_power_of_two(align), "Alignment is power of two");
    return calloc(1, KANI_BLOCK(size));
}

// This is a C implementation of the __rust_dealloc function.
// https://stdrs.dev/nightly/x86_64-unknown-linux-gnu/alloc/alloc/fn.__rust_dealloc.html
// It has the following Rust signature:
//   `unsafe fn __rust_dealloc(ptr: *mut u8, size: usize, align: usize)`
// This low-level function is called by std::alloc:dealloc, and its
// implementation is provided by the compiler backend, so we need to provide an
// implementation for it to prevent verification failure due to missing function
// definition.
// For safety, refer to the documentation of GlobalAlloc::dealloc:
// https://doc.rust-lang.org/std/alloc/trait.GlobalAlloc.html#tymethod.dealloc
struct Unit __rust_dealloc(uint8_t *ptr, size_t size, size_t align)
{
    // TODO: Ensure we are doing the right thing with align
    // https://github.com/model-checking/kani/issues/1168
    __KANI_assert(__KANI_is_nonzero_power_of_two(align), "Alignment is power of two");

    __KANI_assert(__CPROVER_OBJECT_SIZE(ptr) == KANI_ARENA || __CPROVER_OBJECT_SIZE(ptr) == KANI_ARENA_BIG,
                  "rust_dealloc must be called on an object whose allocated size matches its layout");
    free(ptr);
    return VoidUnit;
}

// This is a C implementation of the __rust_realloc function that has the following signature:
//     fn __rust_realloc(ptr: *mut u8, old_size: usize, align: usize, new_size: usize) -> *mut u8;
// This low-level function is called by std::alloc:realloc, and its
// implementation is provided by the compiler backend, so we need to provide an
// implementation for it to prevent verification failure due to missing function
// definition.
// For safety, refer to the documentation of GlobalAlloc::realloc:
// https://doc.rust-lang.org/std/alloc/trait.GlobalAlloc.html#method.realloc
uint8_t *__rust_realloc(uint8_t *ptr, size_t old_size, size_t align, size_t new_size)
{
    // Passing a NULL pointer is undefined behavior
    __KANI_assert(ptr != 0, "rust_realloc must be called with a non-null pointer");

    // Passing a new_size of 0 is undefined behavior
    __KANI_assert(new_size > 0, "rust_realloc must be called with a size greater than 0");

    // TODO: Ensure we are doing the right thing with align
    // https://github.com/model-checking/kani/issues/1168
    __KANI_assert(__KANI_is_nonzero_power_of_two(align), "Alignment is power of two");

        uint8_t *result = ptr; /* in-place growth: every block has KANI_ARENA bytes */
    return result;
}

// Function required by the linker, see https://github.com/rust-lang/rust/pull/141061
struct Unit __rust_no_alloc_shim_is_unstable_v2(void)
{
    return VoidUnit;
}
