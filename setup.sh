#!/bin/bash
# Build shadow KANI_HOMEs (patched allocator model) under /verif/.cache. Offline, idempotent.
set -euo pipefail
V=/verif
K=${KANI_REAL_HOME:-$HOME/.kani/kani-0.68.0}
mkdir -p $V/.cache
mk() { # name src arena
  local d=$V/.cache/khome-$1/kani-0.68.0
  rm -rf $V/.cache/khome-$1; mkdir -p $d/library/kani $d/bin
  for f in $K/*; do b=$(basename $f); [ $b = library ] || [ $b = bin ] || ln -s $f $d/$b; done
  for f in $K/library/*; do b=$(basename $f); [ $b = kani ] || ln -s $f $d/library/$b; done
  for f in $K/library/kani/* $K/library/kani/.[!.]*; do [ -e "$f" ] || continue; b=$(basename $f); [ $b = kani_lib.c ] || ln -s $f $d/library/kani/$b; done
  for f in $K/bin/*; do b=$(basename $f); if [ $b = kani-driver ]; then cp $f $d/bin/$b; else ln -s $f $d/bin/$b; fi; done
  sed "s/^#define KANI_ARENA 64/#define KANI_ARENA $3/" $V/khome/$2 > $d/library/kani/kani_lib.c
}
for a in 64 128 256 1024 4096; do mk lazy$a kani_lib_lazy.c $a; mk strict$a kani_lib_arena.c $a; done
echo "khomes ready"
