#!/usr/bin/env python3
"""Solver-based check driver for tafia/calamine properties.

  python3 /verif/run_check.py <property-id> [--tier quick|thorough] [--only REGEX] [--keep]

Builds a scratch overlay of /repo's *current working tree*, compiles the real
source plus the harness modules of the property with the Kani compiler
(--only-codegen), then runs the goto-cc / goto-instrument / CBMC pipeline per
harness itself (parallel, memory- and time-capped, patched allocator model),
interprets every CBMC property, matches failing ones against
/verif/known_findings.json, replays unlisted ones natively (kani concrete
playback) and writes /verif/evidence/<id>.json.

Exit: 0 held / 1 VIOLATION (replayed) / 2 INCONCLUSIVE.
"""
import argparse, concurrent.futures as cf, glob, hashlib, json, os, re, resource
import shutil, signal, subprocess, sys, tempfile, threading, time

V = '/verif'
REPO = os.environ.get('VERIF_REPO', '/repo')
sys.path.insert(0, V)
from harness import specs  # noqa: E402

KANI_REAL = os.path.expanduser('~/.kani/kani-0.68.0')
ENV = dict(os.environ, CARGO_NET_OFFLINE='true')
ENV.pop('KANI_HOME', None)
CBMC_FLAGS = ['--no-malloc-may-fail', '--no-undefined-shift-check', '--no-signed-overflow-check',
              '--nan-check', '--no-self-loops-to-assumptions', '--no-pointer-primitive-check',
              '--object-bits', '16', '--sat-solver', 'cadical', '--slice-formula']
IGNORED_CLASSES = {'reachability_check'}
print_lock = threading.Lock()


def say(*a):
    with print_lock:
        print(*a, flush=True)


def sh(cmd, **kw):
    return subprocess.run(cmd, stdout=subprocess.PIPE, stderr=subprocess.STDOUT, text=True, **kw)


# ---------------------------------------------------------------- overlay
def make_overlay(pid, spec, tmp):
    ov = os.path.join(tmp, 'ov')
    os.makedirs(ov)
    shutil.copytree(os.path.join(REPO, 'src'), os.path.join(ov, 'src'))
    for f in ('Cargo.toml', 'Cargo.lock'):
        shutil.copy(os.path.join(REPO, f), ov)
    with open(os.path.join(ov, 'Cargo.toml'), 'a') as f:
        f.write('\n[workspace]\n')
    hdir = os.path.join(ov, 'kh')
    os.makedirs(hdir)
    hosts = {k: list(v) for k, v in spec.get('hosts', {}).items()}
    for host, files in specs.ALWAYS.items():
        hosts[host] = files + hosts.get(host, [])
    notes = []
    for host, files in hosts.items():
        hp = os.path.join(ov, host)
        if not os.path.exists(hp):
            return None, 'host file %s missing' % host
        with open(hp, 'a') as f:
            f.write('\n')
            for hf in files:
                shutil.copy(os.path.join(V, 'harness', hf), hdir)
                mod = 'k_' + hf[:-3]
                vis = 'pub(crate) ' if hf in ('kcommon.rs', 'kdt.rs', 'kcfb.rs') else ''
                f.write('#[cfg(kani)] #[path = "%s"] %smod %s;\n' % (os.path.join(hdir, hf), vis, mod))
    # declared textual substitutions (I/O source stubs), must match exactly n sites
    subs = spec.get('substitutions', [])
    if isinstance(subs, str):
        subs = specs.PROPS[subs]['substitutions']
    for sub in subs:
        p = os.path.join(ov, sub['file'])
        s = open(p).read()
        n = s.count(sub['old'])
        if n != sub['count']:
            return None, 'substitution %r matched %d sites, expected %d' % (sub['old'][:40], n, sub['count'])
        s = s.replace(sub['old'], sub['new'])
        open(p, 'w').write(s)
        notes.append('substitution in %s: %s' % (sub['file'], sub['why']))
    return ov, notes


def file_digest(p):
    try:
        return hashlib.blake2b(open(p, 'rb').read(), digest_size=8).hexdigest()
    except OSError:
        return None


def codegen(pid, spec, ov):
    tdir = os.path.join(V, '.cache', 'kt', pid + os.environ.get('VERIF_KT_SUFFIX', ''))
    os.makedirs(tdir, exist_ok=True)
    for d in glob.glob(os.path.join(tdir, 'kani', '*', 'debug', 'build', 'calamine', '*')):
        shutil.rmtree(d, ignore_errors=True)
    cmd = ['cargo', 'kani', '--only-codegen', '-Z', 'stubbing', '--target-dir', tdir]
    if spec.get('features'):
        cmd += ['--features', ','.join(spec['features'])]
    t0 = time.time()
    r = sh(cmd, cwd=ov, env=ENV)
    dt = time.time() - t0
    if r.returncode != 0:
        return None, r.stdout, dt
    metas = glob.glob(os.path.join(tdir, 'kani', '*', 'debug', 'build', 'calamine', '*', 'out', '*.kani-metadata.json'))
    if len(metas) != 1:
        return None, 'metadata files: %r\n%s' % (metas, r.stdout[-3000:]), dt
    return json.load(open(metas[0])), r.stdout, dt


# ---------------------------------------------------------------- one harness
def limit(mem_gb):
    def f():
        b = int(mem_gb * (1 << 30))
        resource.setrlimit(resource.RLIMIT_AS, (b, b))
        os.setsid()
    return f


def run_harness(h, cfg, wdir):
    """h: metadata entry; cfg: settings dict. Returns result dict."""
    name = h['pretty_name'].split('::')[-1]
    w = os.path.join(wdir, name)
    os.makedirs(w, exist_ok=True)
    out = os.path.join(w, 'a.out')
    res = dict(harness=name, pretty=h['pretty_name'], arena=cfg['arena'], unwind=h['attributes'].get('unwind_value'),
               status='INCONCLUSIVE', reason='', checks=0, failed=[], covers_sat=0, covers_total=0,
               solver_s=0.0, symex_s=0.0, wall_s=0.0, vars=0, clauses=0)
    t0 = time.time()
    klib = os.path.join(V, 'khome', 'kani_lib_%s.c' % cfg.get('alloc', 'lazy'))
    steps = [
        ['goto-cc', h['goto_file'], klib, '-DKANI_ARENA=%d' % cfg['arena'], '-DKANI_ARENA_BIG=%d' % cfg.get('arena_big', cfg['arena']), '-o', out],
        ['goto-cc', out, '--function', h['mangled_name'], '-o', out],
        ['goto-instrument', '--add-library', '--no-malloc-may-fail', out, out],
        ['goto-instrument', '--generate-function-body-options', 'assert-false-assume-false',
         '--generate-function-body', '.*', '--drop-unused-functions', out, out],
        ['goto-instrument', '--ensure-one-backedge-per-target', out, out],
    ]
    for s in steps:
        r = sh(s, env=ENV)
        if r.returncode != 0:
            res['reason'] = 'pipeline step failed: %s: %s' % (s[0], r.stdout[-500:])
            res['wall_s'] = time.time() - t0
            return res
    cmd = ['cbmc'] + CBMC_FLAGS
    rec = cfg.get('rec_unwind', 3)
    if res['unwind'] is not None and res['unwind'] > rec:
        # Loops get the harness bound; recursion (drop glue through Box<dyn Error>, ...) gets the small bound `rec`.
        # Both keep their unwinding assertions, so a bound that is too small is reported, never silently truncated.
        r = sh(['cbmc', '--show-loops', '--json-ui', out], env=ENV)
        loops = []
        try:
            for e in json.loads(r.stdout):
                if isinstance(e, dict) and 'loops' in e:
                    loops = [l['name'] for l in e['loops']]
        except Exception:
            loops = None
        if loops is None:
            cmd += ['--unwind', str(res['unwind'])]
        else:
            cmd += ['--unwind', str(rec)]
            ov = {}
            for pat, n in cfg.get('unwindset', {}).items():
                for l in loops:
                    if re.search(pat, l):
                        ov[l] = n
            sets = ['%s:%d' % (l, ov.get(l, res['unwind'])) for l in loops]
            if sets:
                cmd += ['--unwindset', ','.join(sets)]
            res['loops'] = len(loops)
            res['rec_unwind'] = rec
    elif res['unwind'] is not None:
        cmd += ['--unwind', str(res['unwind'])]
    # heap blocks have the fixed arena size; keep them field-sensitive so constant propagation survives heap round trips
    # (measured on c04_q_twin: 142 s / 3.4 M variables without, 1.7 s / 70 k variables with)
    cmd += ['--max-field-sensitivity-array-size', str(max(64, cfg.get('fs_array', cfg['arena'])))]
    cmd += cfg.get('cbmc', [])
    cmd += [out, '--verbosity', '8', '--json-ui']
    jf = os.path.join(w, 'res.json')
    with open(jf, 'w') as fo:
        p = subprocess.Popen(cmd, stdout=fo, stderr=subprocess.DEVNULL, env=ENV, preexec_fn=limit(cfg['mem_gb']))
        try:
            p.wait(timeout=cfg['timeout'])
        except subprocess.TimeoutExpired:
            try:
                os.killpg(p.pid, signal.SIGKILL)
            except ProcessLookupError:
                pass
            p.wait()
            res['reason'] = 'timeout after %ds' % cfg['timeout']
            res['wall_s'] = time.time() - t0
            return res
    res['wall_s'] = time.time() - t0
    try:
        data = json.load(open(jf))
    except Exception as e:  # truncated output: killed / out of memory
        res['reason'] = 'cbmc output unreadable (exit %s; memory cap %s GB?): %s' % (p.returncode, cfg['mem_gb'], e)
        return res
    props = None
    for e in data:
        if not isinstance(e, dict):
            continue
        if 'result' in e:
            props = e['result']
        mt = e.get('messageText', '')
        if mt.startswith('Runtime Solver:') or mt.startswith('Runtime decision procedure:'):
            if mt.startswith('Runtime decision'):
                res['solver_s'] += float(mt.split(':')[1].strip().rstrip('s'))
        elif mt.startswith('Runtime Symex:'):
            res['symex_s'] = float(mt.split(':')[1].strip().rstrip('s'))
        else:
            m = re.match(r'(\d+) variables, (\d+) clauses', mt)
            if m:
                res['vars'], res['clauses'] = int(m.group(1)), int(m.group(2))
        if e.get('messageType') == 'ERROR':
            res['reason'] = 'cbmc error: ' + mt[:300]
    if props is None:
        res['reason'] = res['reason'] or 'no result block (exit %s)' % p.returncode
        return res
    failed, unwind_fail, unsupported, errors, unknowns = [], [], [], [], []
    for pr in props:
        pname = pr['property']
        parts = pname.rsplit('.', 2)
        cls = parts[1] if len(parts) == 3 else '?'
        func = parts[0]
        st = pr['status']
        if cls in IGNORED_CLASSES:
            continue
        if cls == 'cover':
            res['covers_total'] += 1
            if st == 'FAILURE':  # cover is asserted negated
                res['covers_sat'] += 1
            continue
        res['checks'] += 1
        if st == 'SUCCESS':
            continue
        loc = pr.get('sourceLocation', {})
        desc = re.sub(r'^\[KANI_CHECK_ID_[^\]]*\]\s*', '', pr.get('description', ''))
        item = dict(function=func, cls=cls, desc=desc, file=loc.get('file', ''), line=int(loc.get('line', 0) or 0), status=st)
        if st == 'UNKNOWN':
            unknowns.append(item)
        elif st != 'FAILURE':
            errors.append(item)
        elif cls == 'unwind':
            unwind_fail.append(item)
        elif cls == 'unsupported_construct':
            unsupported.append(item)
        else:
            failed.append(item)
    if unknowns and not failed:
        errors += unknowns
    res['failed'] = failed
    res['unwind_fail'] = unwind_fail
    res['unsupported'] = unsupported
    if cfg.get('unwind_violation') and unwind_fail and not errors:
        for it in unwind_fail:
            it['desc'] = 'loop bound exceeded (no termination within the bound derived from the input): ' + it['desc']
        failed += unwind_fail
        unwind_fail = []
        res['failed'] = failed
    if errors:
        res['reason'] = 'solver returned status %s for %d properties (resource exhaustion inside the SAT back end?)' % (errors[0]['status'], len(errors))
    elif unwind_fail:
        res['reason'] = 'unwinding assertion failed: %s line %s (bound too small)' % (unwind_fail[0]['function'], unwind_fail[0]['line'])
    elif unsupported:
        res['reason'] = 'unsupported construct reachable: %s' % unsupported[0]['desc'][:200]
    else:
        res['status'] = 'FAILED' if failed else 'PASSED'
    if not cfg.get('keep'):
        for f in (out, jf):
            try:
                os.remove(f)
            except OSError:
                pass
    return res


# ---------------------------------------------------------------- findings
def src_line(ov, item):
    f = item['file']
    if not f:
        return ''
    cands = [f, os.path.join(ov, f)]
    for c in cands:
        if os.path.isfile(c):
            try:
                return open(c, errors='replace').read().split('\n')[item['line'] - 1].strip()
            except IndexError:
                return ''
    return ''


def finding_key(pid, hname, item, ov):
    fn = item['function']
    in_std = 'rustlib/src/rust/library' in item['file'] or item['file'].startswith('library/')
    in_harness = '/kh/' in item['file'] or item['file'].startswith('kh/') or '::k_' in fn or in_std
    pointer = (item['cls'].startswith('pointer') or item['cls'] in ('array_bounds', 'precondition_instance')
               or item['desc'].startswith('dereference failure') or 'same allocation' in item['desc'] or 'same object' in item['desc'])
    return dict(property=pid, harness=hname if in_harness else '*', function=fn, desc=item['desc'],
                text=src_line(ov, item), in_harness=in_harness, pointer=pointer)


def load_known():
    p = os.path.join(V, 'known_findings.json')
    if not os.path.exists(p):
        return []
    return json.load(open(p)).get('findings', [])


def match_known(key, known):
    for k in known:
        if k.get('status', 'open') != 'open':
            continue
        if k['property'] != key['property']:
            continue
        if k.get('function') != key['function'] or k.get('desc') != key['desc']:
            continue
        if k.get('text', key['text']) != key['text']:
            continue
        if k.get('harness', '*') not in ('*', key['harness']):
            continue
        return k
    return None


# ---------------------------------------------------------------- replay
def shadow_home(cfg):
    return os.path.join(V, '.cache', 'khome-%s%d' % (cfg.get('alloc', 'lazy'), cfg['arena']))


def replay(pid, spec, ov, h, cfg):
    """Native replay via Kani concrete playback. Returns (reproduced: bool|None, path, log)."""
    name = h['pretty_name'].split('::')[-1]
    tdir = os.path.join(V, '.cache', 'kt', pid + os.environ.get('VERIF_KT_SUFFIX', '') + '-replay')
    env = dict(ENV)
    home = shadow_home(cfg)
    if not os.path.isdir(home):
        sh(['bash', os.path.join(V, 'setup.sh'), 'homes'])
    env['KANI_HOME'] = home
    cmd = ['cargo', 'kani', '-Z', 'stubbing', '-Z', 'concrete-playback', '--concrete-playback=print',
           '--harness', h['pretty_name'], '--exact', '--target-dir', tdir]
    if spec.get('features'):
        cmd += ['--features', ','.join(spec['features'])]
    # kani-driver runs its own CBMC: give it the flags that make the query tractable (field-sensitive heap blocks)
    extra = ['--max-field-sensitivity-array-size', str(max(64, cfg.get('fs_array', cfg['arena'])))]
    extra += cfg.get('cbmc', [])
    cmd += ['-Z', 'unstable-options', '--cbmc-args'] + extra
    try:
        # no address-space limit here: rustc/kani-compiler reserve far more virtual memory than they touch
        r = subprocess.run(cmd, cwd=ov, env=env, stdout=subprocess.PIPE, stderr=subprocess.STDOUT, text=True,
                           timeout=max(900, cfg['timeout'] * 4))
    except subprocess.TimeoutExpired:
        return None, None, 'playback generation timed out'
    tests = re.findall(r'```\s*\n(.*?)```', r.stdout, re.S)
    tests = [t for t in tests if 'concrete_playback_run' in t]
    if not tests:
        return None, None, 'no concrete playback test produced\n' + r.stdout[-2000:]
    rdir = os.path.join(V, 'replays', pid)
    os.makedirs(rdir, exist_ok=True)
    rpath = os.path.join(rdir, name + '.rs')
    hfile = h['original_file']
    body = '\n'.join(tests)
    with open(rpath, 'w') as f:
        f.write('// Counterexample(s) for harness %s (property %s), produced by CBMC via Kani concrete playback.\n' % (h['pretty_name'], pid))
        f.write('// Replay: python3 /verif/run_check.py %s --replay %s\n' % (pid, rpath))
        f.write('// (appends this test to the harness module in a scratch overlay of /repo and runs `cargo kani playback`).\n')
        f.write(body)
    ok, log = run_playback(spec, ov, hfile, body, tdir, env)
    return ok, rpath, log


def run_playback(spec, ov, hfile, body, tdir, env):
    with open(hfile, 'a') as f:
        f.write('\n' + body + '\n')
    names = re.findall(r'fn (kani_concrete_playback_\w+)', body)
    logs, reproduced = [], False
    for prof in ([],):  # `cargo kani playback` of Kani 0.68 has no --release: native replay is in the dev profile only
        cmd = ['cargo', 'kani', 'playback', '-Z', 'concrete-playback'] + prof
        if spec.get('features'):
            cmd += ['--features', ','.join(spec['features'])]
        cmd += ['--', 'kani_concrete_playback']
        e = dict(env, CARGO_TARGET_DIR=tdir)
        try:
            r = subprocess.run(cmd, cwd=ov, env=e, stdout=subprocess.PIPE, stderr=subprocess.STDOUT, text=True, timeout=1200)
        except subprocess.TimeoutExpired:
            logs.append('playback timed out (%s)' % (prof or 'dev'))
            continue
        logs.append(r.stdout[-60000:])
        # reproduced iff one of the generated playback tests itself is reported FAILED (doctest noise is ignored)
        if any(re.search(r'^test \S*%s \.\.\. FAILED' % re.escape(n), r.stdout, re.M) for n in names):
            reproduced = True
    return reproduced, '\n'.join(logs)


# ---------------------------------------------------------------- main
def main():
    ap = argparse.ArgumentParser()
    ap.add_argument('pid')
    ap.add_argument('--tier', default=os.environ.get('VERIF_TIER', 'quick'), choices=['quick', 'thorough'])
    ap.add_argument('--only', default=None, help='regex on harness names (debugging; evidence still written)')
    ap.add_argument('--keep', action='store_true')
    ap.add_argument('--jobs', type=int, default=0)
    ap.add_argument('--replay', default=None, help='replay a stored counterexample file natively')
    ap.add_argument('--no-evidence', action='store_true')
    a = ap.parse_args()
    pid = a.pid
    seed = int(os.environ.get('VERIF_SEED', '0') or 0)
    if pid not in specs.PROPS:
        say('unknown property', pid)
        return 2
    spec = specs.PROPS[pid]
    t_start = time.time()
    tmp = tempfile.mkdtemp(prefix='vk-%s-' % pid, dir=os.environ.get('VERIF_SCRATCH', '/tmp'))
    try:
        return run(pid, spec, a, seed, tmp, t_start)
    finally:
        if not a.keep:
            shutil.rmtree(tmp, ignore_errors=True)
        else:
            say('kept scratch', tmp)


def run(pid, spec, a, seed, tmp, t_start):
    ov, notes = make_overlay(pid, spec, tmp)
    if ov is None:
        say('INCONCLUSIVE property=%s reason=overlay: %s' % (pid, notes))
        write_evidence(pid, a, seed, spec, [], [], [], t_start, inconclusive=['overlay: %s' % notes])
        return 2
    if a.replay:
        body = open(a.replay).read()
        m = re.search(r'harness (\S+) ', body)
        hfile = None
        for hf in glob.glob(os.path.join(ov, 'kh', '*.rs')):
            if re.search(r'fn %s\b' % re.escape(m.group(1).split('::')[-1]), open(hf).read()):
                hfile = hf
        env = dict(ENV)
        ok, log = run_playback(spec, ov, hfile, body, os.path.join(V, '.cache', 'kt', pid + '-replay'), env)
        say('\n'.join(l[:300] for l in log.splitlines() if re.match(r'^(error|warning: unused|test |thread|running|\s+-->|\s+\|)', l))[-4000:])
        say('REPRODUCED' if ok else 'NOT REPRODUCED')
        return 1 if ok else 0
    meta, log, cg_s = codegen(pid, spec, ov)
    if meta is None:
        say(log[-6000:])
        say('INCONCLUSIVE property=%s reason=compile (the overlay of the current tree plus harnesses does not build)' % pid)
        write_evidence(pid, a, seed, spec, [], [], [], t_start, inconclusive=['compile failure'])
        return 2
    harnesses = []
    for h in meta['proof_harnesses']:
        name = h['pretty_name'].split('::')[-1]
        cfg = specs.config_for(pid, name, a.tier)
        if cfg is None:
            continue
        if a.only and not re.search(a.only, name):
            continue
        cfg['keep'] = a.keep
        harnesses.append((h, cfg))
    if not harnesses:
        say('INCONCLUSIVE property=%s reason=no harness selected' % pid)
        return 2
    expected = specs.expected_harnesses(pid, a.tier, hdir=os.path.join(ov, 'kh'))  # the copies this run compiled
    present = {h['pretty_name'].split('::')[-1] for h, _ in harnesses}
    missing = [] if a.only else sorted(set(expected) - present)
    harnesses.sort(key=lambda hc: -hc[1].get('weight', 1))
    # memory-aware scheduling
    total_mem = float(os.environ.get('VERIF_MEM_GB', '48'))
    max_jobs = a.jobs or int(os.environ.get('VERIF_JOBS', '14'))
    cond = threading.Condition()
    state = dict(mem=0.0, jobs=0)
    wdir = os.path.join(tmp, 'w')
    results = []

    def worker(h, cfg):
        with cond:
            while state['jobs'] >= max_jobs or (state['jobs'] > 0 and state['mem'] + cfg['mem_gb'] > total_mem):
                cond.wait()
            state['jobs'] += 1
            state['mem'] += cfg['mem_gb']
        try:
            r = run_harness(h, cfg, wdir)
        except Exception as e:  # pragma: no cover
            r = dict(harness=h['pretty_name'].split('::')[-1], pretty=h['pretty_name'], status='INCONCLUSIVE', reason='driver exception %r' % e,
                     failed=[], checks=0, covers_sat=0, covers_total=0, solver_s=0, symex_s=0, wall_s=0, vars=0, clauses=0, arena=cfg['arena'], unwind=None)
        finally:
            with cond:
                state['jobs'] -= 1
                state['mem'] -= cfg['mem_gb']
                cond.notify_all()
        say('  [%s] %-44s %-12s %6.1fs  vars=%d checks=%d fail=%d cover=%d/%d %s' % (
            pid, r['harness'], r['status'], r['wall_s'], r['vars'], r['checks'], len(r['failed']), r['covers_sat'], r['covers_total'], r['reason'][:160]))
        return r

    say('[%s] tier=%s harnesses=%d codegen=%.0fs overlay=%s' % (pid, a.tier, len(harnesses), cg_s, ov))
    with cf.ThreadPoolExecutor(max_workers=max(1, len(harnesses))) as ex:
        futs = [ex.submit(worker, h, cfg) for h, cfg in harnesses]
        for f in futs:
            results.append(f.result())
    hmap = {h['pretty_name'].split('::')[-1]: (h, cfg) for h, cfg in harnesses}

    known = load_known()
    inconclusive, violations, known_hit = [], [], []
    for m in missing:
        inconclusive.append('expected harness %s not produced by the build' % m)
    for r in results:
        h, cfg = hmap[r['harness']]
        want_fail = cfg.get('expect') == 'fail'   # reachability twin: assert!(false) must be violated
        if r['status'] == 'INCONCLUSIVE':
            inconclusive.append('%s: %s' % (r['harness'], r['reason']))
            continue
        if want_fail:
            ok = any(it['desc'].startswith('"vacuity twin') or 'vacuity twin' in it['desc'] for it in r['failed'])
            if not ok:
                inconclusive.append('%s: vacuity twin passed (harness family cannot reach its assertions)' % r['harness'])
            r['twin_ok'] = ok
            continue
        if r['covers_total'] == 0 or r['covers_sat'] < cfg.get('min_covers', 1):
            inconclusive.append('%s: vacuity witness not satisfied (%d/%d covers)' % (r['harness'], r['covers_sat'], r['covers_total']))
        if cfg.get('all_covers') and r['covers_sat'] != r['covers_total']:
            inconclusive.append('%s: only %d/%d cover witnesses satisfied' % (r['harness'], r['covers_sat'], r['covers_total']))
        new = []
        for it in r['failed']:
            key = finding_key(pid, r['harness'], it, ov)
            k = match_known(key, known)
            it['key'] = key
            if k:
                known_hit.append((k, r['harness']))
                it['known'] = k['id']
            else:
                new.append(it)
        if new:
            # pointer-class failures with the lazy arena mean "arena exceeded" unless a panic-class failure accompanies them
            if cfg.get('ignore_pointer'):
                new = [it for it in new if not it['key']['pointer']]
                if not new:
                    continue
            hard = [it for it in new if not it['key']['pointer']]
            if not hard:
                inconclusive.append('%s: only memory-model checks failed (%s) -> arena %d exceeded / not a decided violation' % (
                    r['harness'], new[0]['desc'][:80], cfg['arena']))
                continue
            violations.append((r, hard))

    seen = set()
    for k, hn in known_hit:
        if k['id'] in seen:
            continue
        seen.add(k['id'])
        say('KNOWN-FINDING: property=%s %s [%s]' % (pid, k['what'], k['id']))

    rc = 0
    replayed = 0
    viol_out = []
    for r, items in violations:
        h, cfg = hmap[r['harness']]
        for it in items[:6]:
            say('  candidate violation in %s: %s | %s:%s | %s | `%s`' % (r['harness'], it['function'], it['file'], it['line'], it['desc'][:200], it['key']['text'][:120]))
        if os.environ.get('VERIF_NO_REPLAY'):
            ok, rpath, log = True, '(replay skipped by VERIF_NO_REPLAY)', ''
        else:
            ok, rpath, log = replay(pid, spec, ov, h, cfg)
        if ok:
            replayed += 1
            say('VIOLATION property=%s replay=%s' % (pid, rpath))
            viol_out.append(dict(harness=r['harness'], replay=rpath, checks=[dict(function=i['function'], desc=i['desc'], text=i['key']['text']) for i in items[:6]]))
            rc = 1
        else:
            inconclusive.append('%s: counterexample did not reproduce natively (%s)' % (r['harness'], (log or '')[-300:].replace('\n', ' | ')))
    if rc == 0 and inconclusive:
        rc = 2
    for m in inconclusive:
        say('INCONCLUSIVE property=%s %s' % (pid, m))
    write_evidence(pid, a, seed, spec, results, viol_out, sorted(seen), t_start, inconclusive=inconclusive, notes=notes,
                   hmap=hmap, ov=ov, cg_s=cg_s, replayed=replayed)
    say('[%s] done rc=%d wall=%.0fs' % (pid, rc, time.time() - t_start))
    return rc


def write_evidence(pid, a, seed, spec, results, viol_out, known_ids, t_start, inconclusive=(), notes=(), hmap=None, ov=None, cg_s=0, replayed=0):
    if a.no_evidence:
        return
    os.makedirs(os.path.join(V, 'evidence'), exist_ok=True)
    decided = [r for r in results if r['status'] in ('PASSED', 'FAILED')]
    nontrivial = [r for r in decided if r['vars'] > 0 and (r['covers_sat'] > 0 or r.get('twin_ok'))]
    samples = []
    for r in results:
        cfg = hmap[r['harness']][1] if hmap else {}
        samples.append(dict(query=r['harness'], covers=specs.describe(pid, r['harness']), status=r['status'], reason=r.get('reason', ''),
                            unwind=r.get('unwind'), arena_bytes=r.get('arena'), sat_variables=r['vars'], sat_clauses=r['clauses'],
                            properties_checked=r['checks'], properties_failed=len(r['failed']),
                            known_findings=sorted({i.get('known') for i in r['failed'] if i.get('known')}),
                            cover_witnesses='%d/%d' % (r['covers_sat'], r['covers_total']), symex_s=round(r['symex_s'], 2),
                            solver_s=round(r['solver_s'], 2), wall_s=round(r['wall_s'], 1),
                            role='reachability twin (must fail)' if cfg.get('expect') == 'fail' else 'property query'))
    hosts = {}
    for host in list(spec.get('hosts', {}).keys()) + spec.get('extra_files', []):
        hosts[host] = file_digest(os.path.join(REPO, host))
    ev = dict(
        property_id=pid, tier=a.tier, seed=seed, level='model_checking',
        coverage=dict(
            evaluations=len(results),
            distinct_nontrivial=len(nontrivial),
            rule='one evaluation = one SAT-decided bounded-model-checking query (Kani-compiled real source + harness, CBMC 6.11 / CaDiCaL) over all '
                 'values of its symbolic inputs; queries are distinct harness-family members (shapes); non-trivial = decided with a non-empty SAT '
                 'instance and a satisfied reachability witness (kani::cover at the end of the harness, or a failing assert(false) twin)',
            samples=samples,
            obligations=sum(r['checks'] for r in results),
            discharged=sum(r['checks'] - len(r['failed']) for r in decided),
            functions_encoded=spec.get('functions', []),
            source_digests_blake2b=hosts,
            bounds=spec.get('bounds', {}),
            outside_the_claim=spec.get('outside', []),
            stubs=spec.get('stubs', []),
            overlay_notes=list(notes or []),
            known_findings_hit=known_ids,
            inconclusive=list(inconclusive),
            violations=viol_out,
            counterexamples_replayed_natively=replayed,
            solver_seconds_total=round(sum(r['solver_s'] for r in results), 1),
            symex_seconds_total=round(sum(r['symex_s'] for r in results), 1),
            codegen_seconds=round(cg_s, 1),
            sat_variables_total=sum(r['vars'] for r in results),
            exhaustive=False,
            explanation='bounded model checking: each query holds for every value of its symbolic inputs inside the stated shape; nothing is claimed outside the shapes listed',
            checker_cmd='python3 /verif/run_check.py %s --tier %s' % (pid, a.tier),
            trusted_base=['rustc/Kani 0.68 MIR->GOTO translation', 'CBMC 6.11.0 + CaDiCaL', 'fixed-block allocator model /verif/khome/kani_lib_lazy.c',
                          'reference models inside /verif/harness/*.rs'],
        ),
        assumptions=spec.get('assumptions', []) + ['executions that pass through a listed known finding are cut at that point (Kani assert-then-assume)'],
        wall_s=round(time.time() - t_start, 1),
        violations=len(viol_out),
    )
    with open(os.path.join(V, 'evidence', pid + '.json'), 'w') as f:
        json.dump(ev, f, indent=1)


if __name__ == '__main__':
    sys.exit(main())
