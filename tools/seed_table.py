#!/usr/bin/env python3
"""Regenerates the seeded-change table of DESIGN.md (between the SEEDED_TABLE markers) from /verif/seeded/*/."""
import glob, json, os, re
rows = []
for d in sorted(glob.glob('/verif/seeded/*/')):
    sid = os.path.basename(d.rstrip('/'))
    m = json.load(open(d + 'meta.json'))
    res = open(d + 'check_result.txt').read() if os.path.exists(d + 'check_result.txt') else ''
    ex = re.search(r'^exit=(\d+)', res, re.M)
    ex = ex.group(1) if ex else '?'
    hs = sorted(set(re.findall(r'replay=/verif/replays/\w+/(\w+)\.rs', res)))
    verdict = {'1': 'caught (VIOLATION, replayed)', '0': 'missed', '2': 'inconclusive'}.get(ex, 'not run')
    title = (m.get('title') or m.get('description', ''))[:110].replace('|', '/')
    note = m.get('verif_note', '')
    rows.append('| %s | %s | %s | %s |' % (sid, title, verdict + (' — ' + note if note else ''), ', '.join(hs)[:160]))
tab = '| seed | change | verdict of the quick check | failing queries |\n|---|---|---|---|\n' + '\n'.join(rows)
p = '/verif/DESIGN.md'
s = open(p).read()
if 'SEEDED_TABLE_PLACEHOLDER' in s:
    s = s.replace('SEEDED_TABLE_PLACEHOLDER', '<!-- SEEDED_TABLE_BEGIN -->\n' + tab + '\n<!-- SEEDED_TABLE_END -->')
else:
    s = re.sub(r'<!-- SEEDED_TABLE_BEGIN -->.*?<!-- SEEDED_TABLE_END -->', '<!-- SEEDED_TABLE_BEGIN -->\n' + tab.replace('\\', '\\\\') + '\n<!-- SEEDED_TABLE_END -->', s, flags=re.S)
open(p, 'w').write(s)
print(len(rows), 'rows')
