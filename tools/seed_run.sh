#!/bin/bash
# tools/seed_run.sh <seed-id e.g. C02-1> [tier] : run the property's check against the seeded change (applied in the
# mutant's scratch worktree, used as VERIF_REPO), store the verdict in /verif/seeded/<id>/check_result.txt, restore the worktree.
ID=$1; TIER=${2:-quick}; P=${ID%%-*}; W=${MUTROOT:-/tmp/mut}/$P; D=/verif/seeded/$ID
cd $W && git checkout -q -- . && git clean -fdq -e _out && git apply $D/patch.diff || exit 2
cd /verif
VERIF_REPO=$W VERIF_KT_SUFFIX=-seed-$ID VERIF_MEM_GB=${VERIF_MEM_GB:-22} VERIF_JOBS=${VERIF_JOBS:-7} python3 run_check.py $P --tier $TIER --no-evidence > $D/check_log.txt 2>&1
RC=$?
( echo "check: python3 /verif/run_check.py $P --tier $TIER (tree = pristine + patch.diff)"; echo "exit=$RC"; grep -E "^VIOLATION|^KNOWN-FINDING|^INCONCLUSIVE|candidate violation" $D/check_log.txt | head -20 ) > $D/check_result.txt
cd $W && git checkout -q -- . && git clean -fdq -e _out
rm -rf /verif/.cache/kt/$P-seed-$ID /verif/.cache/kt/$P-seed-$ID-replay
echo "$ID exit=$RC"
