#!/bin/bash
# tools/run_all.sh [quick|thorough] : run every registered check once against /repo, validate evidence files.
T=${1:-quick}
cd /verif
for p in $(python3 -c "import json;print(' '.join(c['property_id'] for c in json.load(open('MANIFEST.json'))['checks']))"); do
  s=$(date +%s); python3 run_check.py $p --tier $T > /tmp/all_${T}_$p.log 2>&1; rc=$?
  echo "$p rc=$rc wall=$(( $(date +%s) - s ))s $(grep -a -c 'KNOWN-FINDING' /tmp/all_${T}_$p.log) known-finding lines"
done
python3-vt - <<'PY'
import json,jsonschema,glob
sch=json.load(open('/root/.vp/EVIDENCE.schema.json'))
for f in sorted(glob.glob('/verif/evidence/*.json')):
    try: jsonschema.validate(json.load(open(f)),sch)
    except Exception as e: print(f,'INVALID',str(e)[:120])
print('evidence validated')
PY
