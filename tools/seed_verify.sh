#!/bin/bash
# tools/seed_verify.sh <PROP> <k> : confirm a sub-agent's seeded change in its scratch worktree and store it under /verif/seeded/.
# Confirms: (a) pristine+demo passes, (b) patch+demo fails, (c) patch alone: baseline suite unchanged (only mul_rk fails).
set -u
P=$1; K=$2; W=${MUTROOT:-/tmp/mut}/$P; O=$W/_out/$K; D=/verif/seeded/$P-$K${SUFFIX:-}
export CARGO_NET_OFFLINE=true
cd $W || exit 2
git checkout -q -- . ; git clean -fdq -e _out
CMD=$(python3 -c "import json;print(json.load(open('$O/meta.json'))['demo_cmd'])" | sed 's/^cd [^&]*&& *//')
git apply $O/demo.diff || { echo "demo.diff does not apply"; exit 2; }
( eval "$CMD" ) > $O/log_a.txt 2>&1; A=$?
git apply $O/patch.diff || { echo "patch.diff does not apply"; exit 2; }
( eval "$CMD" ) > $O/log_b.txt 2>&1; B=$?
git checkout -q -- . ; git clean -fdq -e _out
git apply $O/patch.diff
cargo test --offline --no-fail-fast ${EXTRA_FEATURES:-} > $O/log_c.txt 2>&1
C=$(grep -E "^test result" $O/log_c.txt | tr '\n' ' ')
FAILED=$(grep -E "^test [A-Za-z0-9_:]+ \.\.\. FAILED" $O/log_c.txt | tr '\n' ' ')
git checkout -q -- . ; git clean -fdq -e _out
echo "$P-$K demo_on_pristine_rc=$A demo_on_mutant_rc=$B suite: $C failed: $FAILED"
if [ $A -eq 0 ] && [ $B -ne 0 ] && [ "$FAILED" = "test mul_rk ... FAILED " ]; then
  mkdir -p $D; cp $O/patch.diff $O/demo.diff $D/
  python3 - <<PY
import json
m=json.load(open('$O/meta.json'))
m['confirmed_by_me']={'demo_on_pristine':'pass','demo_on_mutant':'fail','suite_with_patch':'$C','only_failing_test':'mul_rk (pre-existing)','ran':'tools/seed_verify.sh $P $K in scratch worktree $W'}
json.dump(m,open('$D/meta.json','w'),indent=1)
PY
  echo "KEPT $D"
else
  echo "REJECTED $P-$K"
fi
