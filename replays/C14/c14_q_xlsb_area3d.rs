// Counterexample(s) for harness xlsb::k_c14_xlsb::c14_q_xlsb_area3d (property C14), produced by CBMC via Kani concrete playback.
// Replay: python3 /verif/run_check.py C14 --replay /verif/replays/C14/c14_q_xlsb_area3d.rs
// (appends this test to the harness module in a scratch overlay of /repo and runs `cargo kani playback`).
/// Test generated for harness `xlsb::k_c14_xlsb::c14_q_xlsb_area3d` 
///
/// Check for `assertion`: ""PtgArea3d""
///
/// # Warning
///
/// Concrete playback tests combined with stubs or contracts is highly
/// experimental, and subject to change.
///
/// The original harness has stubs which are not applied to this test.
/// This may cause a mismatch of non-deterministic values if the stub
/// creates any non-deterministic value.
/// The execution path may also differ, which can be used to refine the stub
/// logic.

#[test]
fn kani_concrete_playback_c14_q_xlsb_area3d_18259487324390809737() {
    let concrete_vals: Vec<Vec<u8>> = vec![
        // 0
        vec![0, 0],
        // 24
        vec![24, 0],
        // 15
        vec![15, 0],
        // 1
        vec![1],
        // 0
        vec![0],
        // 0
        vec![0],
        // 0
        vec![0],
    ];
    kani::concrete_playback_run(concrete_vals, c14_q_xlsb_area3d);
}

/// Test generated for harness `xlsb::k_c14_xlsb::c14_q_xlsb_area3d` 
///
/// Check for `cover`: "end"
///
/// # Warning
///
/// Concrete playback tests combined with stubs or contracts is highly
/// experimental, and subject to change.
///
/// The original harness has stubs which are not applied to this test.
/// This may cause a mismatch of non-deterministic values if the stub
/// creates any non-deterministic value.
/// The execution path may also differ, which can be used to refine the stub
/// logic.

#[test]
fn kani_concrete_playback_c14_q_xlsb_area3d_10691974762021359661() {
    let concrete_vals: Vec<Vec<u8>> = vec![
        // 1
        vec![1, 0],
        // 24
        vec![24, 0],
        // 24
        vec![24, 0],
        // 0
        vec![0],
        // 1
        vec![1],
        // 0
        vec![0],
        // 1
        vec![1],
    ];
    kani::concrete_playback_run(concrete_vals, c14_q_xlsb_area3d);
}
