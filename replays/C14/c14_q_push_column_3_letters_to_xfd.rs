// Counterexample(s) for harness utils::k_c14_utils::c14_q_push_column_3_letters_to_xfd (property C14), produced by CBMC via Kani concrete playback.
// Replay: python3 /verif/run_check.py C14 --replay /verif/replays/C14/c14_q_push_column_3_letters_to_xfd.rs
// (appends this test to the harness module in a scratch overlay of /repo and runs `cargo kani playback`).
/// Test generated for harness `utils::k_c14_utils::c14_q_push_column_3_letters_to_xfd` 
///
/// Check for `assertion`: ""push_column renders bijective base-26 letters""

#[test]
fn kani_concrete_playback_c14_q_push_column_3_letters_to_xfd_17359238914038057517() {
    let concrete_vals: Vec<Vec<u8>> = vec![
        // 702
        vec![190, 2, 0, 0],
    ];
    kani::concrete_playback_run(concrete_vals, c14_q_push_column_3_letters_to_xfd);
}
