// Counterexample(s) for harness utils::k_c14_utils::c14_q_push_column_2_letters (property C14), produced by CBMC via Kani concrete playback.
// Replay: python3 /verif/run_check.py C14 --replay /verif/replays/C14/c14_q_push_column_2_letters.rs
// (appends this test to the harness module in a scratch overlay of /repo and runs `cargo kani playback`).
/// Test generated for harness `utils::k_c14_utils::c14_q_push_column_2_letters` 
///
/// Check for `assertion`: ""push_column renders bijective base-26 letters""

#[test]
fn kani_concrete_playback_c14_q_push_column_2_letters_454321249117875984() {
    let concrete_vals: Vec<Vec<u8>> = vec![
        // 692
        vec![180, 2, 0, 0],
    ];
    kani::concrete_playback_run(concrete_vals, c14_q_push_column_2_letters);
}
