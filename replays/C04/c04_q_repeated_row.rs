// Counterexample(s) for harness ods::k_c04_ods::c04_q_repeated_row (property C04), produced by CBMC via Kani concrete playback.
// Replay: python3 /verif/run_check.py C04 --replay /verif/replays/C04/c04_q_repeated_row.rs
// (appends this test to the harness module in a scratch overlay of /repo and runs `cargo kani playback`).
/// Test generated for harness `ods::k_c04_ods::c04_q_repeated_row` 
///
/// Check for `assertion`: ""range ends at the last used row/column (trailing empties do not enlarge it)""

#[test]
fn kani_concrete_playback_c04_q_repeated_row_7006197528951827409() {
    let concrete_vals: Vec<Vec<u8>> = vec![
        // 0
        vec![0],
        // 0
        vec![0],
        // 0
        vec![0],
    ];
    kani::concrete_playback_run(concrete_vals, c04_q_repeated_row);
}
