// Counterexample(s) for harness ods::k_c04_ods::c04_q_interior_empty_len0_from_c (property C04), produced by CBMC via Kani concrete playback.
// Replay: python3 /verif/run_check.py C04 --replay /verif/replays/C04/c04_q_interior_empty_len0_from_c.rs
// (appends this test to the harness module in a scratch overlay of /repo and runs `cargo kani playback`).
/// Test generated for harness `ods::k_c04_ods::c04_q_interior_empty_len0_from_c` 
///
/// Check for `assertion`: "This is a placeholder message; Kani doesn't support message formatted at runtime"

#[test]
fn kani_concrete_playback_c04_q_interior_empty_len0_from_c_4184894062993726609() {
    let concrete_vals: Vec<Vec<u8>> = vec![
        // 0
        vec![0],
        // 0
        vec![0],
        // 0
        vec![0],
        // 0
        vec![0],
        // 0
        vec![0],
        // 0
        vec![0],
        // 0
        vec![0],
    ];
    kani::concrete_playback_run(concrete_vals, c04_q_interior_empty_len0_from_c);
}
