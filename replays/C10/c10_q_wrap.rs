// Counterexample(s) for harness formats::k_c10_formats::c10_q_wrap (property C10), produced by CBMC via Kani concrete playback.
// Replay: python3 /verif/run_check.py C10 --replay /verif/replays/C10/c10_q_wrap.rs
// (appends this test to the harness module in a scratch overlay of /repo and runs `cargo kani playback`).
/// Test generated for harness `formats::k_c10_formats::c10_q_wrap` 
///
/// Check for `assertion`: ""i64 wraps iff date-like""

#[test]
fn kani_concrete_playback_c10_q_wrap_5035610351680670755() {
    let concrete_vals: Vec<Vec<u8>> = vec![
        // -NaN
        vec![255, 255, 255, 255, 255, 255, 255, 255],
        // -1
        vec![255, 255, 255, 255, 255, 255, 255, 255],
        // 1
        vec![1],
        // 1
        vec![1],
        // 2
        vec![2],
    ];
    kani::concrete_playback_run(concrete_vals, c10_q_wrap);
}
