// Counterexample(s) for harness formats::k_c10_formats::c10_q_grammar_1 (property C10), produced by CBMC via Kani concrete playback.
// Replay: python3 /verif/run_check.py C10 --replay /verif/replays/C10/c10_q_grammar_1.rs
// (appends this test to the harness module in a scratch overlay of /repo and runs `cargo kani playback`).
/// Test generated for harness `formats::k_c10_formats::c10_q_grammar_1` 
///
/// Check for `assertion`: ""format class = class of the first date-like token of the first section""

#[test]
fn kani_concrete_playback_c10_q_grammar_1_17094571844838449873() {
    let concrete_vals: Vec<Vec<u8>> = vec![
        // 36ul
        vec![36, 0, 0, 0, 0, 0, 0, 0],
    ];
    kani::concrete_playback_run(concrete_vals, c10_q_grammar_1);
}

/// Test generated for harness `formats::k_c10_formats::c10_q_grammar_1` 
///
/// Check for `cover`: "end-elapsed"

#[test]
fn kani_concrete_playback_c10_q_grammar_1_15446590818899036178() {
    let concrete_vals: Vec<Vec<u8>> = vec![
        // 38ul
        vec![38, 0, 0, 0, 0, 0, 0, 0],
    ];
    kani::concrete_playback_run(concrete_vals, c10_q_grammar_1);
}

/// Test generated for harness `formats::k_c10_formats::c10_q_grammar_1` 
///
/// Check for `cover`: "end-date"

#[test]
fn kani_concrete_playback_c10_q_grammar_1_17430668046181328039() {
    let concrete_vals: Vec<Vec<u8>> = vec![
        // 25ul
        vec![25, 0, 0, 0, 0, 0, 0, 0],
    ];
    kani::concrete_playback_run(concrete_vals, c10_q_grammar_1);
}
