// Counterexample(s) for harness formats::k_c10_formats::c10_q_grammar_3 (property C10), produced by CBMC via Kani concrete playback.
// Replay: python3 /verif/run_check.py C10 --replay /verif/replays/C10/c10_q_grammar_3.rs
// (appends this test to the harness module in a scratch overlay of /repo and runs `cargo kani playback`).
/// Test generated for harness `formats::k_c10_formats::c10_q_grammar_3` 
///
/// Check for `assertion`: ""format class = class of the first date-like token of the first section""

#[test]
fn kani_concrete_playback_c10_q_grammar_3_13805986787156380271() {
    let concrete_vals: Vec<Vec<u8>> = vec![
        // 35ul
        vec![35, 0, 0, 0, 0, 0, 0, 0],
        // 40ul
        vec![40, 0, 0, 0, 0, 0, 0, 0],
        // 30ul
        vec![30, 0, 0, 0, 0, 0, 0, 0],
    ];
    kani::concrete_playback_run(concrete_vals, c10_q_grammar_3);
}

/// Test generated for harness `formats::k_c10_formats::c10_q_grammar_3` 
///
/// Check for `cover`: "end-elapsed"

#[test]
fn kani_concrete_playback_c10_q_grammar_3_11135621503582735582() {
    let concrete_vals: Vec<Vec<u8>> = vec![
        // 22ul
        vec![22, 0, 0, 0, 0, 0, 0, 0],
        // 31ul
        vec![31, 0, 0, 0, 0, 0, 0, 0],
        // 31ul
        vec![31, 0, 0, 0, 0, 0, 0, 0],
    ];
    kani::concrete_playback_run(concrete_vals, c10_q_grammar_3);
}

/// Test generated for harness `formats::k_c10_formats::c10_q_grammar_3` 
///
/// Check for `cover`: "end-date"

#[test]
fn kani_concrete_playback_c10_q_grammar_3_17928942619583348609() {
    let concrete_vals: Vec<Vec<u8>> = vec![
        // 19ul
        vec![19, 0, 0, 0, 0, 0, 0, 0],
        // 12ul
        vec![12, 0, 0, 0, 0, 0, 0, 0],
        // 39ul
        vec![39, 0, 0, 0, 0, 0, 0, 0],
    ];
    kani::concrete_playback_run(concrete_vals, c10_q_grammar_3);
}
