// Counterexample(s) for harness formats::k_c10_formats::c10_q_grammar_3 (property C10), produced by CBMC via Kani concrete playback.
// Replay: python3 /verif/run_check.py C10 --replay /verif/replays/C10/c10_q_grammar_3.rs
// (appends this test to the harness module in a scratch overlay of /repo and runs `cargo kani playback`).
/// Test generated for harness `formats::k_c10_formats::c10_q_grammar_3` 
///
/// Check for `assertion`: ""format class = class of the first date-like token of the first section""

#[test]
fn kani_concrete_playback_c10_q_grammar_3_13422952133912952258() {
    let concrete_vals: Vec<Vec<u8>> = vec![
        // 23ul
        vec![23, 0, 0, 0, 0, 0, 0, 0],
        // 46ul
        vec![46, 0, 0, 0, 0, 0, 0, 0],
        // 15ul
        vec![15, 0, 0, 0, 0, 0, 0, 0],
    ];
    kani::concrete_playback_run(concrete_vals, c10_q_grammar_3);
}

/// Test generated for harness `formats::k_c10_formats::c10_q_grammar_3` 
///
/// Check for `cover`: "end-elapsed"

#[test]
fn kani_concrete_playback_c10_q_grammar_3_16149821702332822165() {
    let concrete_vals: Vec<Vec<u8>> = vec![
        // 31ul
        vec![31, 0, 0, 0, 0, 0, 0, 0],
        // 21ul
        vec![21, 0, 0, 0, 0, 0, 0, 0],
        // 47ul
        vec![47, 0, 0, 0, 0, 0, 0, 0],
    ];
    kani::concrete_playback_run(concrete_vals, c10_q_grammar_3);
}

/// Test generated for harness `formats::k_c10_formats::c10_q_grammar_3` 
///
/// Check for `cover`: "end-date"

#[test]
fn kani_concrete_playback_c10_q_grammar_3_14318409481909795793() {
    let concrete_vals: Vec<Vec<u8>> = vec![
        // 3ul
        vec![3, 0, 0, 0, 0, 0, 0, 0],
        // 30ul
        vec![30, 0, 0, 0, 0, 0, 0, 0],
        // 17ul
        vec![17, 0, 0, 0, 0, 0, 0, 0],
    ];
    kani::concrete_playback_run(concrete_vals, c10_q_grammar_3);
}
