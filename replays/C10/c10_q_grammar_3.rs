// Counterexample(s) for harness formats::k_c10_formats::c10_q_grammar_3 (property C10), produced by CBMC via Kani concrete playback.
// Replay: python3 /verif/run_check.py C10 --replay /verif/replays/C10/c10_q_grammar_3.rs
// (appends this test to the harness module in a scratch overlay of /repo and runs `cargo kani playback`).
/// Test generated for harness `formats::k_c10_formats::c10_q_grammar_3` 
///
/// Check for `assertion`: ""format class = class of the first date-like token of the first section""

#[test]
fn kani_concrete_playback_c10_q_grammar_3_2699752722717790369() {
    let concrete_vals: Vec<Vec<u8>> = vec![
        // 7ul
        vec![7, 0, 0, 0, 0, 0, 0, 0],
        // 15ul
        vec![15, 0, 0, 0, 0, 0, 0, 0],
        // 29ul
        vec![29, 0, 0, 0, 0, 0, 0, 0],
    ];
    kani::concrete_playback_run(concrete_vals, c10_q_grammar_3);
}

/// Test generated for harness `formats::k_c10_formats::c10_q_grammar_3` 
///
/// Check for `cover`: "end-elapsed"

#[test]
fn kani_concrete_playback_c10_q_grammar_3_4097128043981738637() {
    let concrete_vals: Vec<Vec<u8>> = vec![
        // 32ul
        vec![32, 0, 0, 0, 0, 0, 0, 0],
        // 21ul
        vec![21, 0, 0, 0, 0, 0, 0, 0],
        // 1ul
        vec![1, 0, 0, 0, 0, 0, 0, 0],
    ];
    kani::concrete_playback_run(concrete_vals, c10_q_grammar_3);
}

/// Test generated for harness `formats::k_c10_formats::c10_q_grammar_3` 
///
/// Check for `cover`: "end-date"

#[test]
fn kani_concrete_playback_c10_q_grammar_3_1434018090748661412() {
    let concrete_vals: Vec<Vec<u8>> = vec![
        // 4ul
        vec![4, 0, 0, 0, 0, 0, 0, 0],
        // 30ul
        vec![30, 0, 0, 0, 0, 0, 0, 0],
        // 6ul
        vec![6, 0, 0, 0, 0, 0, 0, 0],
    ];
    kani::concrete_playback_run(concrete_vals, c10_q_grammar_3);
}
