// Counterexample(s) for harness xlsb::cells_reader::k_c03_cells::c03_q_cell_rk_int (property C10), produced by CBMC via Kani concrete playback.
// Replay: python3 /verif/run_check.py C10 --replay /verif/replays/C10/c03_q_cell_rk_int.rs
// (appends this test to the harness module in a scratch overlay of /repo and runs `cargo kani playback`).
/// Test generated for harness `xlsb::cells_reader::k_c03_cells::c03_q_cell_rk_int` 
///
/// Check for `assertion`: ""cell value equals what the record stores""

#[test]
fn kani_concrete_playback_c03_q_cell_rk_int_12561144239572862869() {
    let concrete_vals: Vec<Vec<u8>> = vec![
        // 255
        vec![255],
        // 255
        vec![255],
        // 255
        vec![255],
        // 255
        vec![255],
        // 255
        vec![255],
        // 255
        vec![255],
        // 255
        vec![255],
        // 255
        vec![255],
        // 255
        vec![255],
        // 255
        vec![255],
        // 255
        vec![255],
        // 255
        vec![255],
        // 1
        vec![1],
        // 0
        vec![0],
        // 0
        vec![0],
        // 255
        vec![255],
        // 2
        vec![2],
        // 0
        vec![0],
        // 0
        vec![0],
        // 0
        vec![0],
        // 1048575
        vec![255, 255, 15, 0],
        // 2
        vec![2],
        // 2
        vec![2],
        // 2
        vec![2],
        // 0ul
        vec![0, 0, 0, 0, 0, 0, 0, 0],
        // 0ul
        vec![0, 0, 0, 0, 0, 0, 0, 0],
        // 0ul
        vec![0, 0, 0, 0, 0, 0, 0, 0],
        // 1
        vec![1],
    ];
    kani::concrete_playback_run(concrete_vals, c03_q_cell_rk_int);
}

/// Test generated for harness `xlsb::cells_reader::k_c03_cells::c03_q_cell_rk_int` 
///
/// Check for `cover`: "end"

#[test]
fn kani_concrete_playback_c03_q_cell_rk_int_13435753037177148702() {
    let concrete_vals: Vec<Vec<u8>> = vec![
        // 255
        vec![255],
        // 255
        vec![255],
        // 255
        vec![255],
        // 255
        vec![255],
        // 255
        vec![255],
        // 255
        vec![255],
        // 255
        vec![255],
        // 255
        vec![255],
        // 255
        vec![255],
        // 255
        vec![255],
        // 255
        vec![255],
        // 255
        vec![255],
        // 3
        vec![3],
        // 0
        vec![0],
        // 0
        vec![0],
        // 255
        vec![255],
        // 10
        vec![10],
        // 60
        vec![60],
        // 118
        vec![118],
        // 91
        vec![91],
        // 1048575
        vec![255, 255, 15, 0],
        // 2
        vec![2],
        // 2
        vec![2],
        // 2
        vec![2],
        // 1ul
        vec![1, 0, 0, 0, 0, 0, 0, 0],
        // 1ul
        vec![1, 0, 0, 0, 0, 0, 0, 0],
        // 2ul
        vec![2, 0, 0, 0, 0, 0, 0, 0],
        // 1
        vec![1],
    ];
    kani::concrete_playback_run(concrete_vals, c03_q_cell_rk_int);
}
