// Counterexample(s) for harness xlsb::cells_reader::k_c03_cells::c03_q_cell_real (property C10), produced by CBMC via Kani concrete playback.
// Replay: python3 /verif/run_check.py C10 --replay /verif/replays/C10/c03_q_cell_real.rs
// (appends this test to the harness module in a scratch overlay of /repo and runs `cargo kani playback`).
/// Test generated for harness `xlsb::cells_reader::k_c03_cells::c03_q_cell_real` 
///
/// Check for `assertion`: ""cell value equals what the record stores""

#[test]
fn kani_concrete_playback_c03_q_cell_real_14398223469420145900() {
    let concrete_vals: Vec<Vec<u8>> = vec![
        // 255
        vec![255],
        // 255
        vec![255],
        // 255
        vec![255],
        // 255
        vec![255],
        // 255
        vec![255],
        // 255
        vec![255],
        // 255
        vec![255],
        // 255
        vec![255],
        // 255
        vec![255],
        // 255
        vec![255],
        // 255
        vec![255],
        // 255
        vec![255],
        // 1
        vec![1],
        // 0
        vec![0],
        // 1
        vec![1],
        // 255
        vec![255],
        // 0
        vec![0],
        // 0
        vec![0],
        // 0
        vec![0],
        // 0
        vec![0],
        // 0
        vec![0],
        // 0
        vec![0],
        // 0
        vec![0],
        // 0
        vec![0],
        // 1048575
        vec![255, 255, 15, 0],
        // 1
        vec![1],
        // 2
        vec![2],
        // 0
        vec![0],
        // 1ul
        vec![1, 0, 0, 0, 0, 0, 0, 0],
        // 1ul
        vec![1, 0, 0, 0, 0, 0, 0, 0],
        // 0ul
        vec![0, 0, 0, 0, 0, 0, 0, 0],
        // 1
        vec![1],
    ];
    kani::concrete_playback_run(concrete_vals, c03_q_cell_real);
}

/// Test generated for harness `xlsb::cells_reader::k_c03_cells::c03_q_cell_real` 
///
/// Check for `cover`: "end"

#[test]
fn kani_concrete_playback_c03_q_cell_real_15085823686046417805() {
    let concrete_vals: Vec<Vec<u8>> = vec![
        // 0
        vec![0],
        // 0
        vec![0],
        // 0
        vec![0],
        // 0
        vec![0],
        // 0
        vec![0],
        // 0
        vec![0],
        // 0
        vec![0],
        // 0
        vec![0],
        // 0
        vec![0],
        // 0
        vec![0],
        // 0
        vec![0],
        // 0
        vec![0],
        // 0
        vec![0],
        // 128
        vec![128],
        // 0
        vec![0],
        // 0
        vec![0],
        // 0
        vec![0],
        // 0
        vec![0],
        // 0
        vec![0],
        // 0
        vec![0],
        // 0
        vec![0],
        // 0
        vec![0],
        // 0
        vec![0],
        // 0
        vec![0],
        // 0
        vec![0, 0, 0, 0],
        // 0
        vec![0],
        // 0
        vec![0],
        // 0
        vec![0],
        // 1ul
        vec![1, 0, 0, 0, 0, 0, 0, 0],
        // 1ul
        vec![1, 0, 0, 0, 0, 0, 0, 0],
        // 1ul
        vec![1, 0, 0, 0, 0, 0, 0, 0],
        // 0
        vec![0],
    ];
    kani::concrete_playback_run(concrete_vals, c03_q_cell_real);
}
