// Counterexample(s) for harness formats::k_c10_formats::c10_q_grammar_2 (property C10), produced by CBMC via Kani concrete playback.
// Replay: python3 /verif/run_check.py C10 --replay /verif/replays/C10/c10_q_grammar_2.rs
// (appends this test to the harness module in a scratch overlay of /repo and runs `cargo kani playback`).
/// Test generated for harness `formats::k_c10_formats::c10_q_grammar_2` 
///
/// Check for `assertion`: ""format class = class of the first date-like token of the first section""

#[test]
fn kani_concrete_playback_c10_q_grammar_2_2053045280485330220() {
    let concrete_vals: Vec<Vec<u8>> = vec![
        // 7ul
        vec![7, 0, 0, 0, 0, 0, 0, 0],
        // 25ul
        vec![25, 0, 0, 0, 0, 0, 0, 0],
    ];
    kani::concrete_playback_run(concrete_vals, c10_q_grammar_2);
}

/// Test generated for harness `formats::k_c10_formats::c10_q_grammar_2` 
///
/// Check for `cover`: "end-elapsed"

#[test]
fn kani_concrete_playback_c10_q_grammar_2_8497260068657615864() {
    let concrete_vals: Vec<Vec<u8>> = vec![
        // 31ul
        vec![31, 0, 0, 0, 0, 0, 0, 0],
        // 23ul
        vec![23, 0, 0, 0, 0, 0, 0, 0],
    ];
    kani::concrete_playback_run(concrete_vals, c10_q_grammar_2);
}

/// Test generated for harness `formats::k_c10_formats::c10_q_grammar_2` 
///
/// Check for `cover`: "end-date"

#[test]
fn kani_concrete_playback_c10_q_grammar_2_7797078995501702307() {
    let concrete_vals: Vec<Vec<u8>> = vec![
        // 15ul
        vec![15, 0, 0, 0, 0, 0, 0, 0],
        // 25ul
        vec![25, 0, 0, 0, 0, 0, 0, 0],
    ];
    kani::concrete_playback_run(concrete_vals, c10_q_grammar_2);
}
