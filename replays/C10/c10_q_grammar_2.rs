// Counterexample(s) for harness formats::k_c10_formats::c10_q_grammar_2 (property C10), produced by CBMC via Kani concrete playback.
// Replay: python3 /verif/run_check.py C10 --replay /verif/replays/C10/c10_q_grammar_2.rs
// (appends this test to the harness module in a scratch overlay of /repo and runs `cargo kani playback`).
/// Test generated for harness `formats::k_c10_formats::c10_q_grammar_2` 
///
/// Check for `assertion`: ""format class = class of the first date-like token of the first section""

#[test]
fn kani_concrete_playback_c10_q_grammar_2_12299291905077819803() {
    let concrete_vals: Vec<Vec<u8>> = vec![
        // 47ul
        vec![47, 0, 0, 0, 0, 0, 0, 0],
        // 42ul
        vec![42, 0, 0, 0, 0, 0, 0, 0],
    ];
    kani::concrete_playback_run(concrete_vals, c10_q_grammar_2);
}

/// Test generated for harness `formats::k_c10_formats::c10_q_grammar_2` 
///
/// Check for `cover`: "end-elapsed"

#[test]
fn kani_concrete_playback_c10_q_grammar_2_16600363755310155035() {
    let concrete_vals: Vec<Vec<u8>> = vec![
        // 31ul
        vec![31, 0, 0, 0, 0, 0, 0, 0],
        // 38ul
        vec![38, 0, 0, 0, 0, 0, 0, 0],
    ];
    kani::concrete_playback_run(concrete_vals, c10_q_grammar_2);
}

/// Test generated for harness `formats::k_c10_formats::c10_q_grammar_2` 
///
/// Check for `cover`: "end-date"

#[test]
fn kani_concrete_playback_c10_q_grammar_2_14325699652323654448() {
    let concrete_vals: Vec<Vec<u8>> = vec![
        // 27ul
        vec![27, 0, 0, 0, 0, 0, 0, 0],
        // 40ul
        vec![40, 0, 0, 0, 0, 0, 0, 0],
    ];
    kani::concrete_playback_run(concrete_vals, c10_q_grammar_2);
}
