// Counterexample(s) for harness formats::k_c10_formats::c10_q_grammar_2 (property C10), produced by CBMC via Kani concrete playback.
// Replay: python3 /verif/run_check.py C10 --replay /verif/replays/C10/c10_q_grammar_2.rs
// (appends this test to the harness module in a scratch overlay of /repo and runs `cargo kani playback`).
/// Test generated for harness `formats::k_c10_formats::c10_q_grammar_2` 
///
/// Check for `assertion`: ""format class = class of the first date-like token of the first section""

#[test]
fn kani_concrete_playback_c10_q_grammar_2_10687118597026684639() {
    let concrete_vals: Vec<Vec<u8>> = vec![
        // 35ul
        vec![35, 0, 0, 0, 0, 0, 0, 0],
        // 27ul
        vec![27, 0, 0, 0, 0, 0, 0, 0],
    ];
    kani::concrete_playback_run(concrete_vals, c10_q_grammar_2);
}

/// Test generated for harness `formats::k_c10_formats::c10_q_grammar_2` 
///
/// Check for `cover`: "end-elapsed"

#[test]
fn kani_concrete_playback_c10_q_grammar_2_2399675311439866275() {
    let concrete_vals: Vec<Vec<u8>> = vec![
        // 48ul
        vec![48, 0, 0, 0, 0, 0, 0, 0],
        // 31ul
        vec![31, 0, 0, 0, 0, 0, 0, 0],
    ];
    kani::concrete_playback_run(concrete_vals, c10_q_grammar_2);
}

/// Test generated for harness `formats::k_c10_formats::c10_q_grammar_2` 
///
/// Check for `cover`: "end-date"

#[test]
fn kani_concrete_playback_c10_q_grammar_2_17160686027840054614() {
    let concrete_vals: Vec<Vec<u8>> = vec![
        // 39ul
        vec![39, 0, 0, 0, 0, 0, 0, 0],
        // 19ul
        vec![19, 0, 0, 0, 0, 0, 0, 0],
    ];
    kani::concrete_playback_run(concrete_vals, c10_q_grammar_2);
}
