// Counterexample(s) for harness xlsb::cells_reader::k_c03_cells::c03_q_cell_rk_float (property C10), produced by CBMC via Kani concrete playback.
// Replay: python3 /verif/run_check.py C10 --replay /verif/replays/C10/c03_q_cell_rk_float.rs
// (appends this test to the harness module in a scratch overlay of /repo and runs `cargo kani playback`).
/// Test generated for harness `xlsb::cells_reader::k_c03_cells::c03_q_cell_rk_float` 
///
/// Check for `assertion`: ""cell value equals what the record stores""

#[test]
fn kani_concrete_playback_c03_q_cell_rk_float_17594576609925368930() {
    let concrete_vals: Vec<Vec<u8>> = vec![
        // 255
        vec![255],
        // 255
        vec![255],
        // 255
        vec![255],
        // 255
        vec![255],
        // 255
        vec![255],
        // 255
        vec![255],
        // 255
        vec![255],
        // 255
        vec![255],
        // 255
        vec![255],
        // 255
        vec![255],
        // 255
        vec![255],
        // 255
        vec![255],
        // 1
        vec![1],
        // 0
        vec![0],
        // 1
        vec![1],
        // 255
        vec![255],
        // 120
        vec![120],
        // 44
        vec![44],
        // 45
        vec![45],
        // 67
        vec![67],
        // 1048575
        vec![255, 255, 15, 0],
        // 1
        vec![1],
        // 1
        vec![1],
        // 1
        vec![1],
        // 0ul
        vec![0, 0, 0, 0, 0, 0, 0, 0],
        // 1ul
        vec![1, 0, 0, 0, 0, 0, 0, 0],
        // 1ul
        vec![1, 0, 0, 0, 0, 0, 0, 0],
        // 1
        vec![1],
    ];
    kani::concrete_playback_run(concrete_vals, c03_q_cell_rk_float);
}

/// Test generated for harness `xlsb::cells_reader::k_c03_cells::c03_q_cell_rk_float` 
///
/// Check for `cover`: "end"

#[test]
fn kani_concrete_playback_c03_q_cell_rk_float_3265622947557716050() {
    let concrete_vals: Vec<Vec<u8>> = vec![
        // 255
        vec![255],
        // 255
        vec![255],
        // 255
        vec![255],
        // 255
        vec![255],
        // 255
        vec![255],
        // 255
        vec![255],
        // 255
        vec![255],
        // 255
        vec![255],
        // 255
        vec![255],
        // 255
        vec![255],
        // 255
        vec![255],
        // 255
        vec![255],
        // 1
        vec![1],
        // 0
        vec![0],
        // 0
        vec![0],
        // 255
        vec![255],
        // 64
        vec![64],
        // 0
        vec![0],
        // 0
        vec![0],
        // 0
        vec![0],
        // 1048575
        vec![255, 255, 15, 0],
        // 2
        vec![2],
        // 2
        vec![2],
        // 1
        vec![1],
        // 0ul
        vec![0, 0, 0, 0, 0, 0, 0, 0],
        // 1ul
        vec![1, 0, 0, 0, 0, 0, 0, 0],
        // 1ul
        vec![1, 0, 0, 0, 0, 0, 0, 0],
        // 1
        vec![1],
    ];
    kani::concrete_playback_run(concrete_vals, c03_q_cell_rk_float);
}
