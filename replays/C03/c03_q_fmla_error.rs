// Counterexample(s) for harness xlsb::cells_reader::k_c03_cells::c03_q_fmla_error (property C03), produced by CBMC via Kani concrete playback.
// Replay: python3 /verif/run_check.py C03 --replay /verif/replays/C03/c03_q_fmla_error.rs
// (appends this test to the harness module in a scratch overlay of /repo and runs `cargo kani playback`).
/// Test generated for harness `xlsb::cells_reader::k_c03_cells::c03_q_fmla_error` 
///
/// Check for `assertion`: ""well-formed cell record rejected""

#[test]
fn kani_concrete_playback_c03_q_fmla_error_16123320954405120078() {
    let concrete_vals: Vec<Vec<u8>> = vec![
        // 0
        vec![0],
        // 0
        vec![0],
        // 0
        vec![0],
        // 0
        vec![0],
        // 0
        vec![0],
        // 0
        vec![0],
        // 0
        vec![0],
        // 0
        vec![0],
        // 1
        vec![1],
        // 0
        vec![0],
        // 0
        vec![0],
        // 0
        vec![0],
        // 0
        vec![0],
        // 0
        vec![0],
        // 0
        vec![0],
        // 0
        vec![0],
        // 0
        vec![0],
        // 0
        vec![0, 0, 0, 0],
        // 0
        vec![0],
        // 1
        vec![1],
        // 1
        vec![1],
        // 1ul
        vec![1, 0, 0, 0, 0, 0, 0, 0],
        // 1ul
        vec![1, 0, 0, 0, 0, 0, 0, 0],
        // 1ul
        vec![1, 0, 0, 0, 0, 0, 0, 0],
        // 0
        vec![0],
    ];
    kani::concrete_playback_run(concrete_vals, c03_q_fmla_error);
}
