// Counterexample(s) for harness xlsb::cells_reader::k_c03_cells::c03_q_cell_isst (property C03), produced by CBMC via Kani concrete playback.
// Replay: python3 /verif/run_check.py C03 --replay /verif/replays/C03/c03_q_cell_isst.rs
// (appends this test to the harness module in a scratch overlay of /repo and runs `cargo kani playback`).
/// Test generated for harness `xlsb::cells_reader::k_c03_cells::c03_q_cell_isst` 
///
/// Check for `assertion`: "index out of bounds: the length is less than or equal to the given index"

#[test]
fn kani_concrete_playback_c03_q_cell_isst_15089687940064901341() {
    let concrete_vals: Vec<Vec<u8>> = vec![
        // 0
        vec![0],
        // 0
        vec![0],
        // 0
        vec![0],
        // 0
        vec![0],
        // 0
        vec![0],
        // 0
        vec![0],
        // 0
        vec![0],
        // 0
        vec![0],
        // 0
        vec![0],
        // 0
        vec![0],
        // 0
        vec![0],
        // 0
        vec![0],
        // 4
        vec![4],
        // 0
        vec![0],
        // 0
        vec![0],
        // 0
        vec![0],
        // 0
        vec![0],
        // 0
        vec![0],
        // 0
        vec![0],
        // 128
        vec![128],
        // 0
        vec![0, 0, 0, 0],
        // 0
        vec![0],
        // 0
        vec![0],
        // 0
        vec![0],
        // 1ul
        vec![1, 0, 0, 0, 0, 0, 0, 0],
        // 1ul
        vec![1, 0, 0, 0, 0, 0, 0, 0],
        // 1ul
        vec![1, 0, 0, 0, 0, 0, 0, 0],
        // 0
        vec![0],
    ];
    kani::concrete_playback_run(concrete_vals, c03_q_cell_isst);
}

/// Test generated for harness `xlsb::cells_reader::k_c03_cells::c03_q_cell_isst` 
///
/// Check for `cover`: "end"

#[test]
fn kani_concrete_playback_c03_q_cell_isst_3729096172811784669() {
    let concrete_vals: Vec<Vec<u8>> = vec![
        // 255
        vec![255],
        // 255
        vec![255],
        // 255
        vec![255],
        // 255
        vec![255],
        // 255
        vec![255],
        // 255
        vec![255],
        // 255
        vec![255],
        // 255
        vec![255],
        // 255
        vec![255],
        // 255
        vec![255],
        // 255
        vec![255],
        // 255
        vec![255],
        // 2
        vec![2],
        // 0
        vec![0],
        // 0
        vec![0],
        // 255
        vec![255],
        // 1
        vec![1],
        // 0
        vec![0],
        // 0
        vec![0],
        // 0
        vec![0],
        // 1048575
        vec![255, 255, 15, 0],
        // 2
        vec![2],
        // 2
        vec![2],
        // 2
        vec![2],
        // 0ul
        vec![0, 0, 0, 0, 0, 0, 0, 0],
        // 0ul
        vec![0, 0, 0, 0, 0, 0, 0, 0],
        // 0ul
        vec![0, 0, 0, 0, 0, 0, 0, 0],
        // 1
        vec![1],
    ];
    kani::concrete_playback_run(concrete_vals, c03_q_cell_isst);
}
