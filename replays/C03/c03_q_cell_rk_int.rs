// Counterexample(s) for harness xlsb::cells_reader::k_c03_cells::c03_q_cell_rk_int (property C03), produced by CBMC via Kani concrete playback.
// Replay: python3 /verif/run_check.py C03 --replay /verif/replays/C03/c03_q_cell_rk_int.rs
// (appends this test to the harness module in a scratch overlay of /repo and runs `cargo kani playback`).
/// Test generated for harness `xlsb::cells_reader::k_c03_cells::c03_q_cell_rk_int` 
///
/// Check for `assertion`: ""cell value equals what the record stores""

#[test]
fn kani_concrete_playback_c03_q_cell_rk_int_16014386840054236732() {
    let concrete_vals: Vec<Vec<u8>> = vec![
        // 255
        vec![255],
        // 255
        vec![255],
        // 255
        vec![255],
        // 255
        vec![255],
        // 255
        vec![255],
        // 255
        vec![255],
        // 255
        vec![255],
        // 255
        vec![255],
        // 255
        vec![255],
        // 255
        vec![255],
        // 255
        vec![255],
        // 255
        vec![255],
        // 1
        vec![1],
        // 0
        vec![0],
        // 0
        vec![0],
        // 255
        vec![255],
        // 243
        vec![243],
        // 255
        vec![255],
        // 255
        vec![255],
        // 231
        vec![231],
        // 1048575
        vec![255, 255, 15, 0],
        // 2
        vec![2],
        // 0
        vec![0],
        // 2
        vec![2],
        // 1ul
        vec![1, 0, 0, 0, 0, 0, 0, 0],
        // 1ul
        vec![1, 0, 0, 0, 0, 0, 0, 0],
        // 1ul
        vec![1, 0, 0, 0, 0, 0, 0, 0],
        // 1
        vec![1],
    ];
    kani::concrete_playback_run(concrete_vals, c03_q_cell_rk_int);
}

/// Test generated for harness `xlsb::cells_reader::k_c03_cells::c03_q_cell_rk_int` 
///
/// Check for `cover`: "end"

#[test]
fn kani_concrete_playback_c03_q_cell_rk_int_3007401518295091971() {
    let concrete_vals: Vec<Vec<u8>> = vec![
        // 255
        vec![255],
        // 255
        vec![255],
        // 255
        vec![255],
        // 255
        vec![255],
        // 255
        vec![255],
        // 255
        vec![255],
        // 255
        vec![255],
        // 255
        vec![255],
        // 255
        vec![255],
        // 255
        vec![255],
        // 255
        vec![255],
        // 255
        vec![255],
        // 2
        vec![2],
        // 0
        vec![0],
        // 1
        vec![1],
        // 255
        vec![255],
        // 2
        vec![2],
        // 0
        vec![0],
        // 0
        vec![0],
        // 70
        vec![70],
        // 1048575
        vec![255, 255, 15, 0],
        // 2
        vec![2],
        // 0
        vec![0],
        // 2
        vec![2],
        // 2ul
        vec![2, 0, 0, 0, 0, 0, 0, 0],
        // 1ul
        vec![1, 0, 0, 0, 0, 0, 0, 0],
        // 0ul
        vec![0, 0, 0, 0, 0, 0, 0, 0],
        // 0
        vec![0],
    ];
    kani::concrete_playback_run(concrete_vals, c03_q_cell_rk_int);
}
