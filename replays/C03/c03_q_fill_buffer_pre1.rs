// Counterexample(s) for harness xlsb::k_c03_xlsb::c03_q_fill_buffer_pre1 (property C03), produced by CBMC via Kani concrete playback.
// Replay: python3 /verif/run_check.py C03 --replay /verif/replays/C03/c03_q_fill_buffer_pre1.rs
// (appends this test to the harness module in a scratch overlay of /repo and runs `cargo kani playback`).
/// Test generated for harness `xlsb::k_c03_xlsb::c03_q_fill_buffer_pre1` 
///
/// Check for `safety_check`: "dereference failure: pointer invalid"

#[test]
fn kani_concrete_playback_c03_q_fill_buffer_pre1_6950615531510243460() {
    let concrete_vals: Vec<Vec<u8>> = vec![
        // 251
        vec![251],
        // 255
        vec![255],
        // 255
        vec![255],
        // 255
        vec![255],
    ];
    kani::concrete_playback_run(concrete_vals, c03_q_fill_buffer_pre1);
}

/// Test generated for harness `xlsb::k_c03_xlsb::c03_q_fill_buffer_pre1` 
///
/// Check for `cover`: "end"

#[test]
fn kani_concrete_playback_c03_q_fill_buffer_pre1_11044431250204114065() {
    let concrete_vals: Vec<Vec<u8>> = vec![
        // 131
        vec![131],
        // 255
        vec![255],
        // 255
        vec![255],
        // 255
        vec![255],
    ];
    kani::concrete_playback_run(concrete_vals, c03_q_fill_buffer_pre1);
}

/// Test generated for harness `xlsb::k_c03_xlsb::c03_q_fill_buffer_pre1` 
///
/// Check for `safety_check`: "dereference failure: pointer invalid"

#[test]
fn kani_concrete_playback_c03_q_fill_buffer_pre1_6950615531510243460() {
    let concrete_vals: Vec<Vec<u8>> = vec![
        // 251
        vec![251],
        // 255
        vec![255],
        // 255
        vec![255],
        // 255
        vec![255],
    ];
    kani::concrete_playback_run(concrete_vals, c03_q_fill_buffer_pre1);
}
