// Counterexample(s) for harness xlsb::k_c03_xlsb::c03_q_fill_buffer_pre2 (property C03), produced by CBMC via Kani concrete playback.
// Replay: python3 /verif/run_check.py C03 --replay /verif/replays/C03/c03_q_fill_buffer_pre2.rs
// (appends this test to the harness module in a scratch overlay of /repo and runs `cargo kani playback`).
/// Test generated for harness `xlsb::k_c03_xlsb::c03_q_fill_buffer_pre2` 
///
/// Check for `safety_check`: "dereference failure: pointer invalid"

#[test]
fn kani_concrete_playback_c03_q_fill_buffer_pre2_15598261722243229798() {
    let concrete_vals: Vec<Vec<u8>> = vec![
        // 128
        vec![128],
        // 129
        vec![129],
        // 255
        vec![255],
        // 255
        vec![255],
        // 255
        vec![255],
    ];
    kani::concrete_playback_run(concrete_vals, c03_q_fill_buffer_pre2);
}

/// Test generated for harness `xlsb::k_c03_xlsb::c03_q_fill_buffer_pre2` 
///
/// Check for `cover`: "end"

#[test]
fn kani_concrete_playback_c03_q_fill_buffer_pre2_12955254328872852534() {
    let concrete_vals: Vec<Vec<u8>> = vec![
        // 131
        vec![131],
        // 128
        vec![128],
        // 255
        vec![255],
        // 255
        vec![255],
        // 0
        vec![0],
    ];
    kani::concrete_playback_run(concrete_vals, c03_q_fill_buffer_pre2);
}
