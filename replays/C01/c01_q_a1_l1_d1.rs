// Counterexample(s) for harness xlsx::k_c01_xlsx::c01_q_a1_l1_d1 (property C01), produced by CBMC via Kani concrete playback.
// Replay: python3 /verif/run_check.py C01 --replay /verif/replays/C01/c01_q_a1_l1_d1.rs
// (appends this test to the harness module in a scratch overlay of /repo and runs `cargo kani playback`).
/// Test generated for harness `xlsx::k_c01_xlsx::c01_q_a1_l1_d1` 
///
/// Check for `assertion`: ""column is bijective base-26 minus one""

#[test]
fn kani_concrete_playback_c01_q_a1_l1_d1_17720547468351167581() {
    let concrete_vals: Vec<Vec<u8>> = vec![
        // 23
        vec![23],
        // 1
        vec![1],
        // 9
        vec![9],
    ];
    kani::concrete_playback_run(concrete_vals, c01_q_a1_l1_d1);
}

/// Test generated for harness `xlsx::k_c01_xlsx::c01_q_a1_l1_d1` 
///
/// Check for `cover`: "end"

#[test]
fn kani_concrete_playback_c01_q_a1_l1_d1_17632470306999957988() {
    let concrete_vals: Vec<Vec<u8>> = vec![
        // 7
        vec![7],
        // 0
        vec![0],
        // 2
        vec![2],
    ];
    kani::concrete_playback_run(concrete_vals, c01_q_a1_l1_d1);
}
