// Counterexample(s) for harness xlsx::k_c01_xlsx::c01_q_a1_l1_d3 (property C01), produced by CBMC via Kani concrete playback.
// Replay: python3 /verif/run_check.py C01 --replay /verif/replays/C01/c01_q_a1_l1_d3.rs
// (appends this test to the harness module in a scratch overlay of /repo and runs `cargo kani playback`).
/// Test generated for harness `xlsx::k_c01_xlsx::c01_q_a1_l1_d3` 
///
/// Check for `assertion`: ""column is bijective base-26 minus one""

#[test]
fn kani_concrete_playback_c01_q_a1_l1_d3_17668018244861274265() {
    let concrete_vals: Vec<Vec<u8>> = vec![
        // 3
        vec![3],
        // 1
        vec![1],
        // 4
        vec![4],
        // 9
        vec![9],
        // 9
        vec![9],
    ];
    kani::concrete_playback_run(concrete_vals, c01_q_a1_l1_d3);
}

/// Test generated for harness `xlsx::k_c01_xlsx::c01_q_a1_l1_d3` 
///
/// Check for `cover`: "end"

#[test]
fn kani_concrete_playback_c01_q_a1_l1_d3_1421981538177185724() {
    let concrete_vals: Vec<Vec<u8>> = vec![
        // 3
        vec![3],
        // 0
        vec![0],
        // 4
        vec![4],
        // 9
        vec![9],
        // 9
        vec![9],
    ];
    kani::concrete_playback_run(concrete_vals, c01_q_a1_l1_d3);
}
