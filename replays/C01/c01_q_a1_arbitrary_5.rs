// Counterexample(s) for harness xlsx::k_c01_xlsx::c01_q_a1_arbitrary_5 (property C01), produced by CBMC via Kani concrete playback.
// Replay: python3 /verif/run_check.py C01 --replay /verif/replays/C01/c01_q_a1_arbitrary_5.rs
// (appends this test to the harness module in a scratch overlay of /repo and runs `cargo kani playback`).
/// Test generated for harness `xlsx::k_c01_xlsx::c01_q_a1_arbitrary_5` 
///
/// Check for `assertion`: "assertion failed: c.map(|x| x as u64) == if nl == 0 { None } else { Some(col - 1) }"

#[test]
fn kani_concrete_playback_c01_q_a1_arbitrary_5_17417950613416933864() {
    let concrete_vals: Vec<Vec<u8>> = vec![
        // 104
        vec![104],
        // 57
        vec![57],
        // 56
        vec![56],
        // 56
        vec![56],
        // 48
        vec![48],
    ];
    kani::concrete_playback_run(concrete_vals, c01_q_a1_arbitrary_5);
}

/// Test generated for harness `xlsx::k_c01_xlsx::c01_q_a1_arbitrary_5` 
///
/// Check for `cover`: "end"

#[test]
fn kani_concrete_playback_c01_q_a1_arbitrary_5_14070241828109596603() {
    let concrete_vals: Vec<Vec<u8>> = vec![
        // 89
        vec![89],
        // 50
        vec![50],
        // 50
        vec![50],
        // 50
        vec![50],
        // 48
        vec![48],
    ];
    kani::concrete_playback_run(concrete_vals, c01_q_a1_arbitrary_5);
}
