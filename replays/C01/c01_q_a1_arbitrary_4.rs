// Counterexample(s) for harness xlsx::k_c01_xlsx::c01_q_a1_arbitrary_4 (property C01), produced by CBMC via Kani concrete playback.
// Replay: python3 /verif/run_check.py C01 --replay /verif/replays/C01/c01_q_a1_arbitrary_4.rs
// (appends this test to the harness module in a scratch overlay of /repo and runs `cargo kani playback`).
/// Test generated for harness `xlsx::k_c01_xlsx::c01_q_a1_arbitrary_4` 
///
/// Check for `assertion`: "assertion failed: c.map(|x| x as u64) == if nl == 0 { None } else { Some(col - 1) }"

#[test]
fn kani_concrete_playback_c01_q_a1_arbitrary_4_12257100050022107513() {
    let concrete_vals: Vec<Vec<u8>> = vec![
        // 112
        vec![112],
        // 56
        vec![56],
        // 48
        vec![48],
        // 48
        vec![48],
    ];
    kani::concrete_playback_run(concrete_vals, c01_q_a1_arbitrary_4);
}

/// Test generated for harness `xlsx::k_c01_xlsx::c01_q_a1_arbitrary_4` 
///
/// Check for `cover`: "end"

#[test]
fn kani_concrete_playback_c01_q_a1_arbitrary_4_623897797843914476() {
    let concrete_vals: Vec<Vec<u8>> = vec![
        // 80
        vec![80],
        // 56
        vec![56],
        // 56
        vec![56],
        // 52
        vec![52],
    ];
    kani::concrete_playback_run(concrete_vals, c01_q_a1_arbitrary_4);
}
