// Counterexample(s) for harness xlsx::k_c01_xlsx::c01_q_a1_arbitrary_4 (property C01), produced by CBMC via Kani concrete playback.
// Replay: python3 /verif/run_check.py C01 --replay /verif/replays/C01/c01_q_a1_arbitrary_4.rs
// (appends this test to the harness module in a scratch overlay of /repo and runs `cargo kani playback`).
/// Test generated for harness `xlsx::k_c01_xlsx::c01_q_a1_arbitrary_4` 
///
/// Check for `assertion`: "assertion failed: c.map(|x| x as u64) == if nl == 0 { None } else { Some(col - 1) }"

#[test]
fn kani_concrete_playback_c01_q_a1_arbitrary_4_16020291622503374920() {
    let concrete_vals: Vec<Vec<u8>> = vec![
        // 108
        vec![108],
        // 55
        vec![55],
        // 53
        vec![53],
        // 55
        vec![55],
    ];
    kani::concrete_playback_run(concrete_vals, c01_q_a1_arbitrary_4);
}

/// Test generated for harness `xlsx::k_c01_xlsx::c01_q_a1_arbitrary_4` 
///
/// Check for `cover`: "end"

#[test]
fn kani_concrete_playback_c01_q_a1_arbitrary_4_10200127654495544354() {
    let concrete_vals: Vec<Vec<u8>> = vec![
        // 80
        vec![80],
        // 66
        vec![66],
        // 76
        vec![76],
        // 54
        vec![54],
    ];
    kani::concrete_playback_run(concrete_vals, c01_q_a1_arbitrary_4);
}
