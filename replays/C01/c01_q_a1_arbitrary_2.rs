// Counterexample(s) for harness xlsx::k_c01_xlsx::c01_q_a1_arbitrary_2 (property C01), produced by CBMC via Kani concrete playback.
// Replay: python3 /verif/run_check.py C01 --replay /verif/replays/C01/c01_q_a1_arbitrary_2.rs
// (appends this test to the harness module in a scratch overlay of /repo and runs `cargo kani playback`).
/// Test generated for harness `xlsx::k_c01_xlsx::c01_q_a1_arbitrary_2` 
///
/// Check for `assertion`: "assertion failed: c.map(|x| x as u64) == if nl == 0 { None } else { Some(col - 1) }"

#[test]
fn kani_concrete_playback_c01_q_a1_arbitrary_2_9163038402515125812() {
    let concrete_vals: Vec<Vec<u8>> = vec![
        // 97
        vec![97],
        // 53
        vec![53],
    ];
    kani::concrete_playback_run(concrete_vals, c01_q_a1_arbitrary_2);
}

/// Test generated for harness `xlsx::k_c01_xlsx::c01_q_a1_arbitrary_2` 
///
/// Check for `cover`: "end"

#[test]
fn kani_concrete_playback_c01_q_a1_arbitrary_2_10741921944320536418() {
    let concrete_vals: Vec<Vec<u8>> = vec![
        // 80
        vec![80],
        // 53
        vec![53],
    ];
    kani::concrete_playback_run(concrete_vals, c01_q_a1_arbitrary_2);
}
