// Counterexample(s) for harness xls::k_c12_xls::c12_q_sst_split0_8_16 (property C12), produced by CBMC via Kani concrete playback.
// Replay: python3 /verif/run_check.py C12 --replay /verif/replays/C12/c12_q_sst_split0_8_16.rs
// (appends this test to the harness module in a scratch overlay of /repo and runs `cargo kani playback`).
/// Test generated for harness `xls::k_c12_xls::c12_q_sst_split0_8_16` 
///
/// Check for `assertion`: ""well-formed SST rejected""
///
/// # Warning
///
/// Concrete playback tests combined with stubs or contracts is highly
/// experimental, and subject to change.
///
/// The original harness has stubs which are not applied to this test.
/// This may cause a mismatch of non-deterministic values if the stub
/// creates any non-deterministic value.
/// The execution path may also differ, which can be used to refine the stub
/// logic.

#[test]
fn kani_concrete_playback_c12_q_sst_split0_8_16_6245450436162527857() {
    let concrete_vals: Vec<Vec<u8>> = vec![
        // 64
        vec![64],
        // 64
        vec![64],
        // 64
        vec![64],
        // 0
        vec![0],
    ];
    kani::concrete_playback_run(concrete_vals, c12_q_sst_split0_8_16);
}
