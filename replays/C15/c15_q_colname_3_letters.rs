// Counterexample(s) for harness xlsx::k_c15_xlsx::c15_q_colname_3_letters (property C15), produced by CBMC via Kani concrete playback.
// Replay: python3 /verif/run_check.py C15 --replay /verif/replays/C15/c15_q_colname_3_letters.rs
// (appends this test to the harness module in a scratch overlay of /repo and runs `cargo kani playback`).
/// Test generated for harness `xlsx::k_c15_xlsx::c15_q_colname_3_letters` 
///
/// Check for `assertion`: ""column_number_to_name renders bijective base-26 letters""

#[test]
fn kani_concrete_playback_c15_q_colname_3_letters_12700295245481365619() {
    let concrete_vals: Vec<Vec<u8>> = vec![
        // 8132
        vec![196, 31, 0, 0],
    ];
    kani::concrete_playback_run(concrete_vals, c15_q_colname_3_letters);
}

/// Test generated for harness `xlsx::k_c15_xlsx::c15_q_colname_3_letters` 
///
/// Check for `cover`: "end"

#[test]
fn kani_concrete_playback_c15_q_colname_3_letters_11817013822435532902() {
    let concrete_vals: Vec<Vec<u8>> = vec![
        // 16383
        vec![255, 63, 0, 0],
    ];
    kani::concrete_playback_run(concrete_vals, c15_q_colname_3_letters);
}
