// Counterexample(s) for harness xlsx::k_c15_xlsx::c15_q_trailing_name_dr_only (property C15), produced by CBMC via Kani concrete playback.
// Replay: python3 /verif/run_check.py C15 --replay /verif/replays/C15/c15_q_trailing_name_dr_only.rs
// (appends this test to the harness module in a scratch overlay of /repo and runs `cargo kani playback`).
/// Test generated for harness `xlsx::k_c15_xlsx::c15_q_trailing_name_dr_only` 
///
/// Check for `assertion`: ""member formula = master formula translated by the member's offset""

#[test]
fn kani_concrete_playback_c15_q_trailing_name_dr_only_16503767735263208991() {
    let concrete_vals: Vec<Vec<u8>> = vec![
        // 0
        vec![0, 0, 0, 0, 0, 0, 0, 0],
    ];
    kani::concrete_playback_run(concrete_vals, c15_q_trailing_name_dr_only);
}
