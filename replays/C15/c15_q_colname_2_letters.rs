// Counterexample(s) for harness xlsx::k_c15_xlsx::c15_q_colname_2_letters (property C15), produced by CBMC via Kani concrete playback.
// Replay: python3 /verif/run_check.py C15 --replay /verif/replays/C15/c15_q_colname_2_letters.rs
// (appends this test to the harness module in a scratch overlay of /repo and runs `cargo kani playback`).
/// Test generated for harness `xlsx::k_c15_xlsx::c15_q_colname_2_letters` 
///
/// Check for `assertion`: ""letter count""

#[test]
fn kani_concrete_playback_c15_q_colname_2_letters_3178502415191948100() {
    let concrete_vals: Vec<Vec<u8>> = vec![
        // 687
        vec![175, 2, 0, 0],
    ];
    kani::concrete_playback_run(concrete_vals, c15_q_colname_2_letters);
}
