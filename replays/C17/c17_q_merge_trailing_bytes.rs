// Counterexample(s) for harness xls::k_c17_xls::c17_q_merge_trailing_bytes (property C17), produced by CBMC via Kani concrete playback.
// Replay: python3 /verif/run_check.py C17 --replay /verif/replays/C17/c17_q_merge_trailing_bytes.rs
// (appends this test to the harness module in a scratch overlay of /repo and runs `cargo kani playback`).
/// Test generated for harness `xls::k_c17_xls::c17_q_merge_trailing_bytes` 
///
/// Check for `assertion`: ""one region per Ref8 entry""

#[test]
fn kani_concrete_playback_c17_q_merge_trailing_bytes_7227787254086662465() {
    let concrete_vals: Vec<Vec<u8>> = vec![
        // 255
        vec![255],
        // 255
        vec![255],
        // 7
        vec![7],
        // 0
        vec![0],
        // 8
        vec![8],
        // 0
        vec![0],
        // 7
        vec![7],
        // 0
        vec![0],
        // 255
        vec![255],
        // 255
        vec![255],
        // 255
        vec![255],
        // 255
        vec![255],
        // 255
        vec![255],
        // 255
        vec![255],
        // 1
        vec![1],
    ];
    kani::concrete_playback_run(concrete_vals, c17_q_merge_trailing_bytes);
}
