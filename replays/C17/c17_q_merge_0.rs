// Counterexample(s) for harness xls::k_c17_xls::c17_q_merge_0 (property C17), produced by CBMC via Kani concrete playback.
// Replay: python3 /verif/run_check.py C17 --replay /verif/replays/C17/c17_q_merge_0.rs
// (appends this test to the harness module in a scratch overlay of /repo and runs `cargo kani playback`).
/// Test generated for harness `xls::k_c17_xls::c17_q_merge_0` 
///
/// Check for `assertion`: ""one region per Ref8 entry""

#[test]
fn kani_concrete_playback_c17_q_merge_0_17443388612059453902() {
    let concrete_vals: Vec<Vec<u8>> = vec![
        // 0
        vec![0],
        // 0
        vec![0],
        // 1
        vec![1],
    ];
    kani::concrete_playback_run(concrete_vals, c17_q_merge_0);
}
