// Counterexample(s) for harness xls::k_c08_xls::c08_q_xls_row_after_data (property C08), produced by CBMC via Kani concrete playback.
// Replay: python3 /verif/run_check.py C08 --replay /verif/replays/C08/c08_q_xls_row_after_data.rs
// (appends this test to the harness module in a scratch overlay of /repo and runs `cargo kani playback`).
/// Test generated for harness `xls::k_c08_xls::c08_q_xls_row_after_data` 
///
/// Check for `assertion`: ""invalid range bounds""

#[test]
fn kani_concrete_playback_c08_q_xls_row_after_data_5776372176742307940() {
    let concrete_vals: Vec<Vec<u8>> = vec![
        // 0
        vec![0, 0, 0, 0, 0, 0, 0, 0],
        // 0
        vec![0, 0, 0, 0, 0, 0, 0, 0],
        // 0
        vec![0, 0, 0, 0, 0, 0, 0, 0],
        // 0
        vec![0, 0, 0, 0, 0, 0, 0, 0],
    ];
    kani::concrete_playback_run(concrete_vals, c08_q_xls_row_after_data);
}
