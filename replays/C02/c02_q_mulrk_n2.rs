// Counterexample(s) for harness xls::k_c02_xls::c02_q_mulrk_n2 (property C02), produced by CBMC via Kani concrete playback.
// Replay: python3 /verif/run_check.py C02 --replay /verif/replays/C02/c02_q_mulrk_n2.rs
// (appends this test to the harness module in a scratch overlay of /repo and runs `cargo kani playback`).
/// Test generated for harness `xls::k_c02_xls::c02_q_mulrk_n2` 
///
/// Check for `assertion`: ""MULRK entry value""

#[test]
fn kani_concrete_playback_c02_q_mulrk_n2_6005169835165043609() {
    let concrete_vals: Vec<Vec<u8>> = vec![
        // 255
        vec![255],
        // 255
        vec![255],
        // 254
        vec![254],
        // 0
        vec![0],
        // 255
        vec![255],
        // 255
        vec![255],
        // 106
        vec![106],
        // 155
        vec![155],
        // 255
        vec![255],
        // 99
        vec![99],
        // 255
        vec![255],
        // 255
        vec![255],
        // 246
        vec![246],
        // 12
        vec![12],
        // 0
        vec![0],
        // 206
        vec![206],
        // 255
        vec![255],
        // 0
        vec![0],
        // 1
        vec![1],
        // 2
        vec![2],
        // 2
        vec![2],
        // 2
        vec![2],
    ];
    kani::concrete_playback_run(concrete_vals, c02_q_mulrk_n2);
}

/// Test generated for harness `xls::k_c02_xls::c02_q_mulrk_n2` 
///
/// Check for `cover`: "end"

#[test]
fn kani_concrete_playback_c02_q_mulrk_n2_3470484308011642556() {
    let concrete_vals: Vec<Vec<u8>> = vec![
        // 255
        vec![255],
        // 255
        vec![255],
        // 254
        vec![254],
        // 0
        vec![0],
        // 255
        vec![255],
        // 255
        vec![255],
        // 2
        vec![2],
        // 128
        vec![128],
        // 241
        vec![241],
        // 127
        vec![127],
        // 255
        vec![255],
        // 255
        vec![255],
        // 170
        vec![170],
        // 245
        vec![245],
        // 255
        vec![255],
        // 38
        vec![38],
        // 255
        vec![255],
        // 0
        vec![0],
        // 1
        vec![1],
        // 2
        vec![2],
        // 2
        vec![2],
        // 2
        vec![2],
    ];
    kani::concrete_playback_run(concrete_vals, c02_q_mulrk_n2);
}
