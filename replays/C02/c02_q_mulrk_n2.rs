// Counterexample(s) for harness xls::k_c02_xls::c02_q_mulrk_n2 (property C02), produced by CBMC via Kani concrete playback.
// Replay: python3 /verif/run_check.py C02 --replay /verif/replays/C02/c02_q_mulrk_n2.rs
// (appends this test to the harness module in a scratch overlay of /repo and runs `cargo kani playback`).
/// Test generated for harness `xls::k_c02_xls::c02_q_mulrk_n2` 
///
/// Check for `assertion`: "attempt to add with overflow"

#[test]
fn kani_concrete_playback_c02_q_mulrk_n2_6043178406057822244() {
    let concrete_vals: Vec<Vec<u8>> = vec![
        // 0
        vec![0],
        // 0
        vec![0],
        // 0
        vec![0],
        // 0
        vec![0],
        // 3
        vec![3],
        // 0
        vec![0],
        // 254
        vec![254],
        // 255
        vec![255],
        // 255
        vec![255],
        // 255
        vec![255],
        // 3
        vec![3],
        // 0
        vec![0],
        // 254
        vec![254],
        // 255
        vec![255],
        // 255
        vec![255],
        // 255
        vec![255],
        // 255
        vec![255],
        // 255
        vec![255],
        // 0
        vec![0],
        // 2
        vec![2],
        // 2
        vec![2],
        // 2
        vec![2],
    ];
    kani::concrete_playback_run(concrete_vals, c02_q_mulrk_n2);
}

/// Test generated for harness `xls::k_c02_xls::c02_q_mulrk_n2` 
///
/// Check for `cover`: "end"

#[test]
fn kani_concrete_playback_c02_q_mulrk_n2_5589750415400818377() {
    let concrete_vals: Vec<Vec<u8>> = vec![
        // 255
        vec![255],
        // 255
        vec![255],
        // 254
        vec![254],
        // 239
        vec![239],
        // 3
        vec![3],
        // 0
        vec![0],
        // 2
        vec![2],
        // 16
        vec![16],
        // 6
        vec![6],
        // 0
        vec![0],
        // 2
        vec![2],
        // 0
        vec![0],
        // 250
        vec![250],
        // 1
        vec![1],
        // 0
        vec![0],
        // 0
        vec![0],
        // 255
        vec![255],
        // 239
        vec![239],
        // 0
        vec![0],
        // 1
        vec![1],
        // 2
        vec![2],
        // 2
        vec![2],
    ];
    kani::concrete_playback_run(concrete_vals, c02_q_mulrk_n2);
}
