// Counterexample(s) for harness xls::k_c02_xls::c02_q_meta_int (property C02), produced by CBMC via Kani concrete playback.
// Replay: python3 /verif/run_check.py C02 --replay /verif/replays/C02/c02_q_meta_int.rs
// (appends this test to the harness module in a scratch overlay of /repo and runs `cargo kani playback`).
/// Test generated for harness `xls::k_c02_xls::c02_q_meta_int` 
///
/// Check for `assertion`: ""RK integer is the stored 30-bit value""

#[test]
fn kani_concrete_playback_c02_q_meta_int_17977074412609098311() {
    let concrete_vals: Vec<Vec<u8>> = vec![
        // 3
        vec![3, 0],
        // 22273
        vec![1, 87],
        // -258998272
        vec![0, 0, 144, 240],
        // 2877352946
        vec![242, 235, 128, 171],
        // 0
        vec![0],
    ];
    kani::concrete_playback_run(concrete_vals, c02_q_meta_int);
}
