// Counterexample(s) for harness xls::k_c02_xls::c02_q_rk_int_x100_exact (property C02), produced by CBMC via Kani concrete playback.
// Replay: python3 /verif/run_check.py C02 --replay /verif/replays/C02/c02_q_rk_int_x100_exact.rs
// (appends this test to the harness module in a scratch overlay of /repo and runs `cargo kani playback`).
/// Test generated for harness `xls::k_c02_xls::c02_q_rk_int_x100_exact` 
///
/// Check for `assertion`: ""rk_num equals MS-XLS RkNumber""

#[test]
fn kani_concrete_playback_c02_q_rk_int_x100_exact_6731553383176301104() {
    let concrete_vals: Vec<Vec<u8>> = vec![
        // 2
        vec![2, 0],
        // 4294966543
        vec![15, 253, 255, 255],
        // 1
        vec![1],
        // 1
        vec![1],
        // 1
        vec![1],
        // 1
        vec![1],
    ];
    kani::concrete_playback_run(concrete_vals, c02_q_rk_int_x100_exact);
}

/// Test generated for harness `xls::k_c02_xls::c02_q_rk_int_x100_exact` 
///
/// Check for `cover`: "end"

#[test]
fn kani_concrete_playback_c02_q_rk_int_x100_exact_8029724272712678216() {
    let concrete_vals: Vec<Vec<u8>> = vec![
        // 1
        vec![1, 0],
        // 2147483651
        vec![3, 0, 0, 128],
        // 0
        vec![0],
        // 2
        vec![2],
        // 2
        vec![2],
        // 2
        vec![2],
    ];
    kani::concrete_playback_run(concrete_vals, c02_q_rk_int_x100_exact);
}
