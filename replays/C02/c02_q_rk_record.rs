// Counterexample(s) for harness xls::k_c02_xls::c02_q_rk_record (property C02), produced by CBMC via Kani concrete playback.
// Replay: python3 /verif/run_check.py C02 --replay /verif/replays/C02/c02_q_rk_record.rs
// (appends this test to the harness module in a scratch overlay of /repo and runs `cargo kani playback`).
/// Test generated for harness `xls::k_c02_xls::c02_q_rk_record` 
///
/// Check for `assertion`: ""RK value""

#[test]
fn kani_concrete_playback_c02_q_rk_record_10393889772936174071() {
    let concrete_vals: Vec<Vec<u8>> = vec![
        // 255
        vec![255],
        // 255
        vec![255],
        // 255
        vec![255],
        // 255
        vec![255],
        // 0
        vec![0],
        // 0
        vec![0],
        // 54
        vec![54],
        // 251
        vec![251],
        // 255
        vec![255],
        // 149
        vec![149],
        // 1
        vec![1],
        // 1
        vec![1],
        // 2
        vec![2],
        // 2
        vec![2],
    ];
    kani::concrete_playback_run(concrete_vals, c02_q_rk_record);
}

/// Test generated for harness `xls::k_c02_xls::c02_q_rk_record` 
///
/// Check for `cover`: "end"

#[test]
fn kani_concrete_playback_c02_q_rk_record_2678418349411901641() {
    let concrete_vals: Vec<Vec<u8>> = vec![
        // 255
        vec![255],
        // 255
        vec![255],
        // 255
        vec![255],
        // 255
        vec![255],
        // 1
        vec![1],
        // 0
        vec![0],
        // 250
        vec![250],
        // 255
        vec![255],
        // 241
        vec![241],
        // 127
        vec![127],
        // 1
        vec![1],
        // 2
        vec![2],
        // 1
        vec![1],
        // 1
        vec![1],
    ];
    kani::concrete_playback_run(concrete_vals, c02_q_rk_record);
}
