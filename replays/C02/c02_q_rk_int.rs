// Counterexample(s) for harness xls::k_c02_xls::c02_q_rk_int (property C02), produced by CBMC via Kani concrete playback.
// Replay: python3 /verif/run_check.py C02 --replay /verif/replays/C02/c02_q_rk_int.rs
// (appends this test to the harness module in a scratch overlay of /repo and runs `cargo kani playback`).
/// Test generated for harness `xls::k_c02_xls::c02_q_rk_int` 
///
/// Check for `assertion`: ""rk_num equals MS-XLS RkNumber""

#[test]
fn kani_concrete_playback_c02_q_rk_int_12263844980949857616() {
    let concrete_vals: Vec<Vec<u8>> = vec![
        // 1
        vec![1, 0],
        // 2147483650
        vec![2, 0, 0, 128],
        // 0
        vec![0],
        // 2
        vec![2],
        // 2
        vec![2],
        // 2
        vec![2],
    ];
    kani::concrete_playback_run(concrete_vals, c02_q_rk_int);
}

/// Test generated for harness `xls::k_c02_xls::c02_q_rk_int` 
///
/// Check for `cover`: "end"

#[test]
fn kani_concrete_playback_c02_q_rk_int_3538066312584444860() {
    let concrete_vals: Vec<Vec<u8>> = vec![
        // 0
        vec![0, 0],
        // 67109110
        vec![246, 0, 0, 4],
        // 1
        vec![1],
        // 0
        vec![0],
        // 2
        vec![2],
        // 2
        vec![2],
    ];
    kani::concrete_playback_run(concrete_vals, c02_q_rk_int);
}
