// Counterexample(s) for harness xls::k_c02_xls::c02_q_label_sst (property C02), produced by CBMC via Kani concrete playback.
// Replay: python3 /verif/run_check.py C02 --replay /verif/replays/C02/c02_q_label_sst.rs
// (appends this test to the harness module in a scratch overlay of /repo and runs `cargo kani playback`).
/// Test generated for harness `xls::k_c02_xls::c02_q_label_sst` 
///
/// Check for `assertion`: ""LABELSST out-of-range or empty string yields no cell""

#[test]
fn kani_concrete_playback_c02_q_label_sst_7348213202738417540() {
    let concrete_vals: Vec<Vec<u8>> = vec![
        // 255
        vec![255],
        // 255
        vec![255],
        // 255
        vec![255],
        // 255
        vec![255],
        // 255
        vec![255],
        // 255
        vec![255],
        // 1
        vec![1],
        // 0
        vec![0],
        // 1
        vec![1],
        // 0
        vec![0],
        // 0ul
        vec![0, 0, 0, 0, 0, 0, 0, 0],
        // 1ul
        vec![1, 0, 0, 0, 0, 0, 0, 0],
        // 1ul
        vec![1, 0, 0, 0, 0, 0, 0, 0],
    ];
    kani::concrete_playback_run(concrete_vals, c02_q_label_sst);
}

/// Test generated for harness `xls::k_c02_xls::c02_q_label_sst` 
///
/// Check for `cover`: "end"

#[test]
fn kani_concrete_playback_c02_q_label_sst_7524524865572306586() {
    let concrete_vals: Vec<Vec<u8>> = vec![
        // 255
        vec![255],
        // 255
        vec![255],
        // 255
        vec![255],
        // 255
        vec![255],
        // 255
        vec![255],
        // 255
        vec![255],
        // 2
        vec![2],
        // 0
        vec![0],
        // 0
        vec![0],
        // 0
        vec![0],
        // 0ul
        vec![0, 0, 0, 0, 0, 0, 0, 0],
        // 1ul
        vec![1, 0, 0, 0, 0, 0, 0, 0],
        // 2ul
        vec![2, 0, 0, 0, 0, 0, 0, 0],
    ];
    kani::concrete_playback_run(concrete_vals, c02_q_label_sst);
}
