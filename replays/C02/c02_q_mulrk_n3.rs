// Counterexample(s) for harness xls::k_c02_xls::c02_q_mulrk_n3 (property C02), produced by CBMC via Kani concrete playback.
// Replay: python3 /verif/run_check.py C02 --replay /verif/replays/C02/c02_q_mulrk_n3.rs
// (appends this test to the harness module in a scratch overlay of /repo and runs `cargo kani playback`).
/// Test generated for harness `xls::k_c02_xls::c02_q_mulrk_n3` 
///
/// Check for `assertion`: ""MULRK entry value""

#[test]
fn kani_concrete_playback_c02_q_mulrk_n3_14965341186495936106() {
    let concrete_vals: Vec<Vec<u8>> = vec![
        // 255
        vec![255],
        // 255
        vec![255],
        // 17
        vec![17],
        // 0
        vec![0],
        // 1
        vec![1],
        // 0
        vec![0],
        // 14
        vec![14],
        // 56
        vec![56],
        // 239
        vec![239],
        // 255
        vec![255],
        // 0
        vec![0],
        // 0
        vec![0],
        // 142
        vec![142],
        // 255
        vec![255],
        // 255
        vec![255],
        // 237
        vec![237],
        // 2
        vec![2],
        // 0
        vec![0],
        // 18
        vec![18],
        // 254
        vec![254],
        // 255
        vec![255],
        // 199
        vec![199],
        // 19
        vec![19],
        // 0
        vec![0],
        // 0
        vec![0],
        // 1
        vec![1],
        // 0
        vec![0],
        // 1
        vec![1],
    ];
    kani::concrete_playback_run(concrete_vals, c02_q_mulrk_n3);
}

/// Test generated for harness `xls::k_c02_xls::c02_q_mulrk_n3` 
///
/// Check for `cover`: "end"

#[test]
fn kani_concrete_playback_c02_q_mulrk_n3_1907931945659790307() {
    let concrete_vals: Vec<Vec<u8>> = vec![
        // 255
        vec![255],
        // 255
        vec![255],
        // 127
        vec![127],
        // 0
        vec![0],
        // 1
        vec![1],
        // 0
        vec![0],
        // 6
        vec![6],
        // 0
        vec![0],
        // 246
        vec![246],
        // 24
        vec![24],
        // 3
        vec![3],
        // 0
        vec![0],
        // 82
        vec![82],
        // 65
        vec![65],
        // 2
        vec![2],
        // 44
        vec![44],
        // 2
        vec![2],
        // 128
        vec![128],
        // 222
        vec![222],
        // 254
        vec![254],
        // 11
        vec![11],
        // 0
        vec![0],
        // 129
        vec![129],
        // 0
        vec![0],
        // 1
        vec![1],
        // 2
        vec![2],
        // 0
        vec![0],
        // 2
        vec![2],
    ];
    kani::concrete_playback_run(concrete_vals, c02_q_mulrk_n3);
}
