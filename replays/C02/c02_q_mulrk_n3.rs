// Counterexample(s) for harness xls::k_c02_xls::c02_q_mulrk_n3 (property C02), produced by CBMC via Kani concrete playback.
// Replay: python3 /verif/run_check.py C02 --replay /verif/replays/C02/c02_q_mulrk_n3.rs
// (appends this test to the harness module in a scratch overlay of /repo and runs `cargo kani playback`).
/// Test generated for harness `xls::k_c02_xls::c02_q_mulrk_n3` 
///
/// Check for `assertion`: "attempt to add with overflow"

#[test]
fn kani_concrete_playback_c02_q_mulrk_n3_9106913460591751742() {
    let concrete_vals: Vec<Vec<u8>> = vec![
        // 0
        vec![0],
        // 0
        vec![0],
        // 0
        vec![0],
        // 0
        vec![0],
        // 255
        vec![255],
        // 132
        vec![132],
        // 2
        vec![2],
        // 0
        vec![0],
        // 0
        vec![0],
        // 0
        vec![0],
        // 255
        vec![255],
        // 214
        vec![214],
        // 2
        vec![2],
        // 0
        vec![0],
        // 0
        vec![0],
        // 128
        vec![128],
        // 254
        vec![254],
        // 133
        vec![133],
        // 2
        vec![2],
        // 0
        vec![0],
        // 107
        vec![107],
        // 0
        vec![0],
        // 255
        vec![255],
        // 255
        vec![255],
        // 1
        vec![1],
        // 2
        vec![2],
        // 2
        vec![2],
        // 1
        vec![1],
    ];
    kani::concrete_playback_run(concrete_vals, c02_q_mulrk_n3);
}

/// Test generated for harness `xls::k_c02_xls::c02_q_mulrk_n3` 
///
/// Check for `cover`: "end"

#[test]
fn kani_concrete_playback_c02_q_mulrk_n3_15880546177993324048() {
    let concrete_vals: Vec<Vec<u8>> = vec![
        // 255
        vec![255],
        // 255
        vec![255],
        // 255
        vec![255],
        // 199
        vec![199],
        // 255
        vec![255],
        // 132
        vec![132],
        // 2
        vec![2],
        // 0
        vec![0],
        // 0
        vec![0],
        // 0
        vec![0],
        // 255
        vec![255],
        // 214
        vec![214],
        // 2
        vec![2],
        // 0
        vec![0],
        // 0
        vec![0],
        // 128
        vec![128],
        // 3
        vec![3],
        // 0
        vec![0],
        // 2
        vec![2],
        // 0
        vec![0],
        // 107
        vec![107],
        // 0
        vec![0],
        // 1
        vec![1],
        // 200
        vec![200],
        // 1
        vec![1],
        // 2
        vec![2],
        // 2
        vec![2],
        // 1
        vec![1],
    ];
    kani::concrete_playback_run(concrete_vals, c02_q_mulrk_n3);
}
