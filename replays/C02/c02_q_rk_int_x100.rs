// Counterexample(s) for harness xls::k_c02_xls::c02_q_rk_int_x100 (property C02), produced by CBMC via Kani concrete playback.
// Replay: python3 /verif/run_check.py C02 --replay /verif/replays/C02/c02_q_rk_int_x100.rs
// (appends this test to the harness module in a scratch overlay of /repo and runs `cargo kani playback`).
/// Test generated for harness `xls::k_c02_xls::c02_q_rk_int_x100` 
///
/// Check for `assertion`: ""x100 integer multiple stays Int""

#[test]
fn kani_concrete_playback_c02_q_rk_int_x100_7725416917765029461() {
    let concrete_vals: Vec<Vec<u8>> = vec![
        // 65535
        vec![255, 255],
        // 4275634099
        vec![179, 255, 216, 254],
        // 1
        vec![1],
        // 1
        vec![1],
        // 2
        vec![2],
        // 2
        vec![2],
    ];
    kani::concrete_playback_run(concrete_vals, c02_q_rk_int_x100);
}

/// Test generated for harness `xls::k_c02_xls::c02_q_rk_int_x100` 
///
/// Check for `cover`: "end"

#[test]
fn kani_concrete_playback_c02_q_rk_int_x100_12143852948661411266() {
    let concrete_vals: Vec<Vec<u8>> = vec![
        // 2
        vec![2, 0],
        // 49203
        vec![51, 192, 0, 0],
        // 1
        vec![1],
        // 1
        vec![1],
        // 1
        vec![1],
        // 1
        vec![1],
    ];
    kani::concrete_playback_run(concrete_vals, c02_q_rk_int_x100);
}
