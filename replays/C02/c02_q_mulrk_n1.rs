// Counterexample(s) for harness xls::k_c02_xls::c02_q_mulrk_n1 (property C02), produced by CBMC via Kani concrete playback.
// Replay: python3 /verif/run_check.py C02 --replay /verif/replays/C02/c02_q_mulrk_n1.rs
// (appends this test to the harness module in a scratch overlay of /repo and runs `cargo kani playback`).
/// Test generated for harness `xls::k_c02_xls::c02_q_mulrk_n1` 
///
/// Check for `assertion`: "attempt to add with overflow"

#[test]
fn kani_concrete_playback_c02_q_mulrk_n1_3841591756549572844() {
    let concrete_vals: Vec<Vec<u8>> = vec![
        // 255
        vec![255],
        // 255
        vec![255],
        // 0
        vec![0],
        // 0
        vec![0],
        // 2
        vec![2],
        // 0
        vec![0],
        // 178
        vec![178],
        // 140
        vec![140],
        // 254
        vec![254],
        // 255
        vec![255],
        // 255
        vec![255],
        // 255
        vec![255],
        // 1
        vec![1],
        // 0
        vec![0],
        // 2
        vec![2],
        // 2
        vec![2],
    ];
    kani::concrete_playback_run(concrete_vals, c02_q_mulrk_n1);
}

/// Test generated for harness `xls::k_c02_xls::c02_q_mulrk_n1` 
///
/// Check for `cover`: "end"

#[test]
fn kani_concrete_playback_c02_q_mulrk_n1_858878565299601562() {
    let concrete_vals: Vec<Vec<u8>> = vec![
        // 255
        vec![255],
        // 255
        vec![255],
        // 255
        vec![255],
        // 255
        vec![255],
        // 1
        vec![1],
        // 0
        vec![0],
        // 250
        vec![250],
        // 252
        vec![252],
        // 15
        vec![15],
        // 14
        vec![14],
        // 255
        vec![255],
        // 255
        vec![255],
        // 1
        vec![1],
        // 2
        vec![2],
        // 2
        vec![2],
        // 2
        vec![2],
    ];
    kani::concrete_playback_run(concrete_vals, c02_q_mulrk_n1);
}
