// Counterexample(s) for harness xls::k_c02_xls::c02_q_mulrk_n1 (property C02), produced by CBMC via Kani concrete playback.
// Replay: python3 /verif/run_check.py C02 --replay /verif/replays/C02/c02_q_mulrk_n1.rs
// (appends this test to the harness module in a scratch overlay of /repo and runs `cargo kani playback`).
/// Test generated for harness `xls::k_c02_xls::c02_q_mulrk_n1` 
///
/// Check for `assertion`: ""MULRK entry value""

#[test]
fn kani_concrete_playback_c02_q_mulrk_n1_12678262573688536779() {
    let concrete_vals: Vec<Vec<u8>> = vec![
        // 255
        vec![255],
        // 255
        vec![255],
        // 136
        vec![136],
        // 0
        vec![0],
        // 2
        vec![2],
        // 0
        vec![0],
        // 134
        vec![134],
        // 255
        vec![255],
        // 255
        vec![255],
        // 255
        vec![255],
        // 136
        vec![136],
        // 0
        vec![0],
        // 0
        vec![0],
        // 0
        vec![0],
        // 2
        vec![2],
        // 0
        vec![0],
    ];
    kani::concrete_playback_run(concrete_vals, c02_q_mulrk_n1);
}

/// Test generated for harness `xls::k_c02_xls::c02_q_mulrk_n1` 
///
/// Check for `cover`: "end"

#[test]
fn kani_concrete_playback_c02_q_mulrk_n1_11255484223652791247() {
    let concrete_vals: Vec<Vec<u8>> = vec![
        // 255
        vec![255],
        // 255
        vec![255],
        // 136
        vec![136],
        // 0
        vec![0],
        // 1
        vec![1],
        // 0
        vec![0],
        // 2
        vec![2],
        // 0
        vec![0],
        // 0
        vec![0],
        // 0
        vec![0],
        // 136
        vec![136],
        // 0
        vec![0],
        // 1
        vec![1],
        // 1
        vec![1],
        // 2
        vec![2],
        // 1
        vec![1],
    ];
    kani::concrete_playback_run(concrete_vals, c02_q_mulrk_n1);
}
