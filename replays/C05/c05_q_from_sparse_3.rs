// Counterexample(s) for harness k_c05_lib::c05_q_from_sparse_3 (property C05), produced by CBMC via Kani concrete playback.
// Replay: python3 /verif/run_check.py C05 --replay /verif/replays/C05/c05_q_from_sparse_3.rs
// (appends this test to the harness module in a scratch overlay of /repo and runs `cargo kani playback`).
/// Test generated for harness `k_c05_lib::c05_q_from_sparse_3` 
///
/// Check for `assertion`: ""from_sparse places every cell at its position, default elsewhere""

#[test]
fn kani_concrete_playback_c05_q_from_sparse_3_10005943911417759190() {
    let concrete_vals: Vec<Vec<u8>> = vec![
        // 4021813175
        vec![183, 255, 183, 239],
        // 268435456
        vec![0, 0, 0, 16],
        // 9223372036854808578ul
        vec![2, 128, 0, 0, 0, 0, 0, 128],
        // 4021813175
        vec![183, 255, 183, 239],
        // 268435456
        vec![0, 0, 0, 16],
        // 3ul
        vec![3, 0, 0, 0, 0, 0, 0, 0],
        // 4021813175
        vec![183, 255, 183, 239],
        // 268435454
        vec![254, 255, 255, 15],
        // 9223372036854808576ul
        vec![0, 128, 0, 0, 0, 0, 0, 128],
    ];
    kani::concrete_playback_run(concrete_vals, c05_q_from_sparse_3);
}

/// Test generated for harness `k_c05_lib::c05_q_from_sparse_3` 
///
/// Check for `cover`: "end"

#[test]
fn kani_concrete_playback_c05_q_from_sparse_3_16219036227311135790() {
    let concrete_vals: Vec<Vec<u8>> = vec![
        // 2664989438
        vec![254, 130, 216, 158],
        // 3825205248
        vec![0, 0, 0, 228],
        // 18446744073709551613ul
        vec![253, 255, 255, 255, 255, 255, 255, 255],
        // 2664989440
        vec![0, 131, 216, 158],
        // 3825205247
        vec![255, 255, 255, 227],
        // 18446744073709551614ul
        vec![254, 255, 255, 255, 255, 255, 255, 255],
        // 2664989440
        vec![0, 131, 216, 158],
        // 3825205249
        vec![1, 0, 0, 228],
        // 0ul
        vec![0, 0, 0, 0, 0, 0, 0, 0],
    ];
    kani::concrete_playback_run(concrete_vals, c05_q_from_sparse_3);
}
