// Counterexample(s) for harness k_c05_lib::c05_q_from_sparse_3 (property C05), produced by CBMC via Kani concrete playback.
// Replay: python3 /verif/run_check.py C05 --replay /verif/replays/C05/c05_q_from_sparse_3.rs
// (appends this test to the harness module in a scratch overlay of /repo and runs `cargo kani playback`).
/// Test generated for harness `k_c05_lib::c05_q_from_sparse_3` 
///
/// Check for `assertion`: "attempt to subtract with overflow"

#[test]
fn kani_concrete_playback_c05_q_from_sparse_3_13544777646551612017() {
    let concrete_vals: Vec<Vec<u8>> = vec![
        // 1915636735
        vec![255, 75, 46, 114],
        // 3221225472
        vec![0, 0, 0, 192],
        // 0ul
        vec![0, 0, 0, 0, 0, 0, 0, 0],
        // 1915636736
        vec![0, 76, 46, 114],
        // 3221225471
        vec![255, 255, 255, 191],
        // 0ul
        vec![0, 0, 0, 0, 0, 0, 0, 0],
        // 1915636736
        vec![0, 76, 46, 114],
        // 3221225470
        vec![254, 255, 255, 191],
        // 0ul
        vec![0, 0, 0, 0, 0, 0, 0, 0],
    ];
    kani::concrete_playback_run(concrete_vals, c05_q_from_sparse_3);
}

/// Test generated for harness `k_c05_lib::c05_q_from_sparse_3` 
///
/// Check for `assertion`: ""tight bounding box: end""

#[test]
fn kani_concrete_playback_c05_q_from_sparse_3_2461390617516322194() {
    let concrete_vals: Vec<Vec<u8>> = vec![
        // 520093695
        vec![255, 255, 255, 30],
        // 4286578689
        vec![1, 0, 128, 255],
        // 0ul
        vec![0, 0, 0, 0, 0, 0, 0, 0],
        // 520093696
        vec![0, 0, 0, 31],
        // 4286578687
        vec![255, 255, 127, 255],
        // 0ul
        vec![0, 0, 0, 0, 0, 0, 0, 0],
        // 520093696
        vec![0, 0, 0, 31],
        // 4286578688
        vec![0, 0, 128, 255],
        // 0ul
        vec![0, 0, 0, 0, 0, 0, 0, 0],
    ];
    kani::concrete_playback_run(concrete_vals, c05_q_from_sparse_3);
}

/// Test generated for harness `k_c05_lib::c05_q_from_sparse_3` 
///
/// Check for `cover`: "end"

#[test]
fn kani_concrete_playback_c05_q_from_sparse_3_825236551933282226() {
    let concrete_vals: Vec<Vec<u8>> = vec![
        // 2147483647
        vec![255, 255, 255, 127],
        // 3724541952
        vec![0, 0, 0, 222],
        // 0ul
        vec![0, 0, 0, 0, 0, 0, 0, 0],
        // 2147483647
        vec![255, 255, 255, 127],
        // 3724541951
        vec![255, 255, 255, 221],
        // 0ul
        vec![0, 0, 0, 0, 0, 0, 0, 0],
        // 2147483648
        vec![0, 0, 0, 128],
        // 3724541952
        vec![0, 0, 0, 222],
        // 0ul
        vec![0, 0, 0, 0, 0, 0, 0, 0],
    ];
    kani::concrete_playback_run(concrete_vals, c05_q_from_sparse_3);
}
