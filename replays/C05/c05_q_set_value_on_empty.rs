// Counterexample(s) for harness k_c05_lib::c05_q_set_value_on_empty (property C05), produced by CBMC via Kani concrete playback.
// Replay: python3 /verif/run_check.py C05 --replay /verif/replays/C05/c05_q_set_value_on_empty.rs
// (appends this test to the harness module in a scratch overlay of /repo and runs `cargo kani playback`).
/// Test generated for harness `k_c05_lib::c05_q_set_value_on_empty` 
///
/// Check for `assertion`: "index out of bounds: the length is less than or equal to the given index"

#[test]
fn kani_concrete_playback_c05_q_set_value_on_empty_17265335190813672825() {
    let concrete_vals: Vec<Vec<u8>> = vec![
        // 0
        vec![0, 0, 0, 0],
        // 0
        vec![0, 0, 0, 0],
        // 0ul
        vec![0, 0, 0, 0, 0, 0, 0, 0],
    ];
    kani::concrete_playback_run(concrete_vals, c05_q_set_value_on_empty);
}

/// Test generated for harness `k_c05_lib::c05_q_set_value_on_empty` 
///
/// Check for `assertion`: "This is a placeholder message; Kani doesn't support message formatted at runtime"

#[test]
fn kani_concrete_playback_c05_q_set_value_on_empty_9891351372915816998() {
    let concrete_vals: Vec<Vec<u8>> = vec![
        // 1
        vec![1, 0, 0, 0],
        // 2
        vec![2, 0, 0, 0],
        // 18446744073709551615ul
        vec![255, 255, 255, 255, 255, 255, 255, 255],
    ];
    kani::concrete_playback_run(concrete_vals, c05_q_set_value_on_empty);
}
