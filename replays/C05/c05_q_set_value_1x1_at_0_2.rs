// Counterexample(s) for harness k_c05_lib::c05_q_set_value_1x1_at_0_2 (property C05), produced by CBMC via Kani concrete playback.
// Replay: python3 /verif/run_check.py C05 --replay /verif/replays/C05/c05_q_set_value_1x1_at_0_2.rs
// (appends this test to the harness module in a scratch overlay of /repo and runs `cargo kani playback`).
/// Test generated for harness `k_c05_lib::c05_q_set_value_1x1_at_0_2` 
///
/// Check for `assertion`: ""set_value preserves the invariant""

#[test]
fn kani_concrete_playback_c05_q_set_value_1x1_at_0_2_10662230966750320069() {
    let concrete_vals: Vec<Vec<u8>> = vec![
        // 0ul
        vec![0, 0, 0, 0, 0, 0, 0, 0],
        // 0ul
        vec![0, 0, 0, 0, 0, 0, 0, 0],
    ];
    kani::concrete_playback_run(concrete_vals, c05_q_set_value_1x1_at_0_2);
}
