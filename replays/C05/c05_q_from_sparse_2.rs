// Counterexample(s) for harness k_c05_lib::c05_q_from_sparse_2 (property C05), produced by CBMC via Kani concrete playback.
// Replay: python3 /verif/run_check.py C05 --replay /verif/replays/C05/c05_q_from_sparse_2.rs
// (appends this test to the harness module in a scratch overlay of /repo and runs `cargo kani playback`).
/// Test generated for harness `k_c05_lib::c05_q_from_sparse_2` 
///
/// Check for `assertion`: "attempt to subtract with overflow"

#[test]
fn kani_concrete_playback_c05_q_from_sparse_2_9710755814516528833() {
    let concrete_vals: Vec<Vec<u8>> = vec![
        // 3221225471
        vec![255, 255, 255, 191],
        // 3221225473
        vec![1, 0, 0, 192],
        // 0ul
        vec![0, 0, 0, 0, 0, 0, 0, 0],
        // 3221225472
        vec![0, 0, 0, 192],
        // 3221225472
        vec![0, 0, 0, 192],
        // 0ul
        vec![0, 0, 0, 0, 0, 0, 0, 0],
    ];
    kani::concrete_playback_run(concrete_vals, c05_q_from_sparse_2);
}

/// Test generated for harness `k_c05_lib::c05_q_from_sparse_2` 
///
/// Check for `assertion`: ""tight bounding box: end""

#[test]
fn kani_concrete_playback_c05_q_from_sparse_2_14929984520369396257() {
    let concrete_vals: Vec<Vec<u8>> = vec![
        // 4292870136
        vec![248, 255, 223, 255],
        // 1
        vec![1, 0, 0, 0],
        // 6ul
        vec![6, 0, 0, 0, 0, 0, 0, 0],
        // 4292870137
        vec![249, 255, 223, 255],
        // 0
        vec![0, 0, 0, 0],
        // 3ul
        vec![3, 0, 0, 0, 0, 0, 0, 0],
    ];
    kani::concrete_playback_run(concrete_vals, c05_q_from_sparse_2);
}

/// Test generated for harness `k_c05_lib::c05_q_from_sparse_2` 
///
/// Check for `cover`: "end"

#[test]
fn kani_concrete_playback_c05_q_from_sparse_2_13283344756821735842() {
    let concrete_vals: Vec<Vec<u8>> = vec![
        // 2147483646
        vec![254, 255, 255, 127],
        // 2684354537
        vec![233, 255, 255, 159],
        // 0ul
        vec![0, 0, 0, 0, 0, 0, 0, 0],
        // 2147483648
        vec![0, 0, 0, 128],
        // 2684354538
        vec![234, 255, 255, 159],
        // 0ul
        vec![0, 0, 0, 0, 0, 0, 0, 0],
    ];
    kani::concrete_playback_run(concrete_vals, c05_q_from_sparse_2);
}
