// Counterexample(s) for harness k_c05_lib::c05_q_from_sparse_2 (property C05), produced by CBMC via Kani concrete playback.
// Replay: python3 /verif/run_check.py C05 --replay /verif/replays/C05/c05_q_from_sparse_2.rs
// (appends this test to the harness module in a scratch overlay of /repo and runs `cargo kani playback`).
/// Test generated for harness `k_c05_lib::c05_q_from_sparse_2` 
///
/// Check for `assertion`: ""from_sparse places every cell at its position, default elsewhere""

#[test]
fn kani_concrete_playback_c05_q_from_sparse_2_12025199998161678113() {
    let concrete_vals: Vec<Vec<u8>> = vec![
        // 3301189024
        vec![160, 37, 196, 196],
        // 4294967295
        vec![255, 255, 255, 255],
        // 72057594037927943ul
        vec![7, 0, 0, 0, 0, 0, 0, 1],
        // 3301189024
        vec![160, 37, 196, 196],
        // 4294967294
        vec![254, 255, 255, 255],
        // 72057594037927942ul
        vec![6, 0, 0, 0, 0, 0, 0, 1],
    ];
    kani::concrete_playback_run(concrete_vals, c05_q_from_sparse_2);
}

/// Test generated for harness `k_c05_lib::c05_q_from_sparse_2` 
///
/// Check for `cover`: "end"

#[test]
fn kani_concrete_playback_c05_q_from_sparse_2_348446833740587392() {
    let concrete_vals: Vec<Vec<u8>> = vec![
        // 3301189024
        vec![160, 37, 196, 196],
        // 2684354559
        vec![255, 255, 255, 159],
        // 2204539092595873944ul
        vec![152, 152, 163, 227, 159, 24, 152, 30],
        // 3301189024
        vec![160, 37, 196, 196],
        // 2684354560
        vec![0, 0, 0, 160],
        // 9223372036854775807ul
        vec![255, 255, 255, 255, 255, 255, 255, 127],
    ];
    kani::concrete_playback_run(concrete_vals, c05_q_from_sparse_2);
}
