// Counterexample(s) for harness k_c05_lib::c05_q_from_sparse_1 (property C05), produced by CBMC via Kani concrete playback.
// Replay: python3 /verif/run_check.py C05 --replay /verif/replays/C05/c05_q_from_sparse_1.rs
// (appends this test to the harness module in a scratch overlay of /repo and runs `cargo kani playback`).
/// Test generated for harness `k_c05_lib::c05_q_from_sparse_1` 
///
/// Check for `assertion`: "attempt to subtract with overflow"

#[test]
fn kani_concrete_playback_c05_q_from_sparse_1_1519879954287273295() {
    let concrete_vals: Vec<Vec<u8>> = vec![
        // 4294967295
        vec![255, 255, 255, 255],
        // 1
        vec![1, 0, 0, 0],
        // 18446744073709551615ul
        vec![255, 255, 255, 255, 255, 255, 255, 255],
    ];
    kani::concrete_playback_run(concrete_vals, c05_q_from_sparse_1);
}

/// Test generated for harness `k_c05_lib::c05_q_from_sparse_1` 
///
/// Check for `cover`: "end"

#[test]
fn kani_concrete_playback_c05_q_from_sparse_1_4594719795329510461() {
    let concrete_vals: Vec<Vec<u8>> = vec![
        // 0
        vec![0, 0, 0, 0],
        // 4294967295
        vec![255, 255, 255, 255],
        // 0ul
        vec![0, 0, 0, 0, 0, 0, 0, 0],
    ];
    kani::concrete_playback_run(concrete_vals, c05_q_from_sparse_1);
}
