// Counterexample(s) for harness k_c05_lib::c05_q_range_of_empty (property C05), produced by CBMC via Kani concrete playback.
// Replay: python3 /verif/run_check.py C05 --replay /verif/replays/C05/c05_q_range_of_empty.rs
// (appends this test to the harness module in a scratch overlay of /repo and runs `cargo kani playback`).
/// Test generated for harness `k_c05_lib::c05_q_range_of_empty` 
///
/// Check for `assertion`: "This is a placeholder message; Kani doesn't support message formatted at runtime"

#[test]
fn kani_concrete_playback_c05_q_range_of_empty_16548495967369749612() {
    let concrete_vals: Vec<Vec<u8>> = vec![
        // 0
        vec![0, 0, 0, 0],
        // 0
        vec![0, 0, 0, 0],
    ];
    kani::concrete_playback_run(concrete_vals, c05_q_range_of_empty);
}
