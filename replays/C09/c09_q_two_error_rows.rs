// Counterexample(s) for harness de::k_c09_de::c09_q_two_error_rows (property C09), produced by CBMC via Kani concrete playback.
// Replay: python3 /verif/run_check.py C09 --replay /verif/replays/C09/c09_q_two_error_rows.rs
// (appends this test to the harness module in a scratch overlay of /repo and runs `cargo kani playback`).
/// Test generated for harness `de::k_c09_de::c09_q_two_error_rows` 
///
/// Check for `assertion`: ""second failing row: own kind and absolute position""
///
/// # Warning
///
/// Concrete playback tests combined with stubs or contracts is highly
/// experimental, and subject to change.
///
/// The original harness has stubs which are not applied to this test.
/// This may cause a mismatch of non-deterministic values if the stub
/// creates any non-deterministic value.
/// The execution path may also differ, which can be used to refine the stub
/// logic.

#[test]
fn kani_concrete_playback_c09_q_two_error_rows_10104546810086037241() {
    let concrete_vals: Vec<Vec<u8>> = vec![
        // 0
        vec![0, 0, 0, 0, 0, 0, 0, 0],
        // 0
        vec![0, 0, 0, 0, 0, 0, 0, 0],
    ];
    kani::concrete_playback_run(concrete_vals, c09_q_two_error_rows);
}
