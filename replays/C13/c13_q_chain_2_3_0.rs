// Counterexample(s) for harness cfb::k_c13_cfb::c13_q_chain_2_3_0 (property C13), produced by CBMC via Kani concrete playback.
// Replay: python3 /verif/run_check.py C13 --replay /verif/replays/C13/c13_q_chain_2_3_0.rs
// (appends this test to the harness module in a scratch overlay of /repo and runs `cargo kani playback`).
/// Test generated for harness `cfb::k_c13_cfb::c13_q_chain_2_3_0` 
///
/// Check for `assertion`: ""stream is truncated to its declared length""

#[test]
fn kani_concrete_playback_c13_q_chain_2_3_0_4366464615303503651() {
    let concrete_vals: Vec<Vec<u8>> = vec![
        // 0
        vec![0],
        // 0
        vec![0],
        // 0
        vec![0],
        // 0
        vec![0],
        // 0
        vec![0],
        // 0
        vec![0],
        // 0
        vec![0],
        // 0
        vec![0],
        // 0
        vec![0],
        // 0
        vec![0],
        // 0
        vec![0],
        // 0
        vec![0],
        // 0
        vec![0],
        // 0
        vec![0],
        // 0
        vec![0],
        // 0
        vec![0],
        // 0
        vec![0],
        // 0
        vec![0],
        // 0
        vec![0],
        // 0
        vec![0],
        // 0
        vec![0],
        // 0
        vec![0],
        // 0
        vec![0],
        // 0
        vec![0],
        // 0
        vec![0],
        // 0
        vec![0],
        // 0
        vec![0],
        // 0
        vec![0],
        // 0
        vec![0],
        // 0
        vec![0],
        // 0
        vec![0],
        // 0
        vec![0],
        // 0
        vec![0, 0, 0, 0],
        // 0
        vec![0, 0, 0, 0],
        // 0
        vec![0, 0, 0, 0],
        // 0
        vec![0, 0, 0, 0],
        // 0ul
        vec![0, 0, 0, 0, 0, 0, 0, 0],
    ];
    kani::concrete_playback_run(concrete_vals, c13_q_chain_2_3_0);
}
