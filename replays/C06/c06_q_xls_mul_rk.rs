// Counterexample(s) for harness xls::k_c06_xls::c06_q_xls_mul_rk (property C06), produced by CBMC via Kani concrete playback.
// Replay: python3 /verif/run_check.py C06 --replay /verif/replays/C06/c06_q_xls_mul_rk.rs
// (appends this test to the harness module in a scratch overlay of /repo and runs `cargo kani playback`).
/// Test generated for harness `xls::k_c06_xls::c06_q_xls_mul_rk` 
///
/// Check for `cover`: "end"

#[test]
fn kani_concrete_playback_c06_q_xls_mul_rk_11176526930196884878() {
    let concrete_vals: Vec<Vec<u8>> = vec![
        // 252
        vec![252],
        // 252
        vec![252],
        // 253
        vec![253],
        // 252
        vec![252],
        // 252
        vec![252],
        // 252
        vec![252],
        // 252
        vec![252],
        // 252
        vec![252],
        // 252
        vec![252],
        // 252
        vec![252],
        // 252
        vec![252],
        // 252
        vec![252],
        // 252
        vec![252],
        // 252
        vec![252],
        // 252
        vec![252],
        // 252
        vec![252],
        // 252
        vec![252],
        // 252
        vec![252],
        // 6ul
        vec![6, 0, 0, 0, 0, 0, 0, 0],
    ];
    kani::concrete_playback_run(concrete_vals, c06_q_xls_mul_rk);
}

/// Test generated for harness `xls::k_c06_xls::c06_q_xls_mul_rk` 
///
/// Check for `assertion`: "index out of bounds: the length is less than or equal to the given index"

#[test]
fn kani_concrete_playback_c06_q_xls_mul_rk_16360145055260561376() {
    let concrete_vals: Vec<Vec<u8>> = vec![
        // 255
        vec![255],
        // 255
        vec![255],
        // 254
        vec![254],
        // 255
        vec![255],
        // 255
        vec![255],
        // 255
        vec![255],
        // 3
        vec![3],
        // 173
        vec![173],
        // 236
        vec![236],
        // 255
        vec![255],
        // 255
        vec![255],
        // 255
        vec![255],
        // 199
        vec![199],
        // 136
        vec![136],
        // 227
        vec![227],
        // 51
        vec![51],
        // 255
        vec![255],
        // 255
        vec![255],
        // 14ul
        vec![14, 0, 0, 0, 0, 0, 0, 0],
    ];
    kani::concrete_playback_run(concrete_vals, c06_q_xls_mul_rk);
}

/// Test generated for harness `xls::k_c06_xls::c06_q_xls_mul_rk` 
///
/// Check for `assertion`: "This is a placeholder message; Kani doesn't support message formatted at runtime"

#[test]
fn kani_concrete_playback_c06_q_xls_mul_rk_5876647922629804155() {
    let concrete_vals: Vec<Vec<u8>> = vec![
        // 255
        vec![255],
        // 255
        vec![255],
        // 254
        vec![254],
        // 255
        vec![255],
        // 255
        vec![255],
        // 255
        vec![255],
        // 3
        vec![3],
        // 173
        vec![173],
        // 236
        vec![236],
        // 255
        vec![255],
        // 255
        vec![255],
        // 255
        vec![255],
        // 83
        vec![83],
        // 252
        vec![252],
        // 2
        vec![2],
        // 0
        vec![0],
        // 255
        vec![255],
        // 255
        vec![255],
        // 15ul
        vec![15, 0, 0, 0, 0, 0, 0, 0],
    ];
    kani::concrete_playback_run(concrete_vals, c06_q_xls_mul_rk);
}
