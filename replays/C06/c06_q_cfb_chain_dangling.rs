// Counterexample(s) for harness cfb::k_c06_cfb::c06_q_cfb_chain_dangling (property C06), produced by CBMC via Kani concrete playback.
// Replay: python3 /verif/run_check.py C06 --replay /verif/replays/C06/c06_q_cfb_chain_dangling.rs
// (appends this test to the harness module in a scratch overlay of /repo and runs `cargo kani playback`).
/// Test generated for harness `cfb::k_c06_cfb::c06_q_cfb_chain_dangling` 
///
/// Check for `cover`: "end"

#[test]
fn kani_concrete_playback_c06_q_cfb_chain_dangling_18408533348083784129() {
    let concrete_vals: Vec<Vec<u8>> = vec![
        // 2
        vec![2, 0, 0, 0],
    ];
    kani::concrete_playback_run(concrete_vals, c06_q_cfb_chain_dangling);
}

/// Test generated for harness `cfb::k_c06_cfb::c06_q_cfb_chain_dangling` 
///
/// Check for `assertion`: "This is a placeholder message; Kani doesn't support message formatted at runtime"

#[test]
fn kani_concrete_playback_c06_q_cfb_chain_dangling_9788332029879749532() {
    let concrete_vals: Vec<Vec<u8>> = vec![
        // 3
        vec![3, 0, 0, 0],
    ];
    kani::concrete_playback_run(concrete_vals, c06_q_cfb_chain_dangling);
}
