// Counterexample(s) for harness vba::k_c18_vba::c18_q_vba_modules_1_readonly (property C18), produced by CBMC via Kani concrete playback.
// Replay: python3 /verif/run_check.py C18 --replay /verif/replays/C18/c18_q_vba_modules_1_readonly.rs
// (appends this test to the harness module in a scratch overlay of /repo and runs `cargo kani playback`).
/// Test generated for harness `vba::k_c18_vba::c18_q_vba_modules_1_readonly` 
///
/// Check for `assertion`: ""well-formed PROJECTMODULES rejected""
///
/// # Warning
///
/// Concrete playback tests combined with stubs or contracts is highly
/// experimental, and subject to change.
///
/// The original harness has stubs which are not applied to this test.
/// This may cause a mismatch of non-deterministic values if the stub
/// creates any non-deterministic value.
/// The execution path may also differ, which can be used to refine the stub
/// logic.

#[test]
fn kani_concrete_playback_c18_q_vba_modules_1_readonly_14243875071138967598() {
    let concrete_vals: Vec<Vec<u8>> = vec![
        // 255
        vec![255],
        // 255
        vec![255],
        // 255
        vec![255],
        // 255
        vec![255],
        // 255
        vec![255],
        // 255
        vec![255],
        // 255
        vec![255],
        // 255
        vec![255],
        // 255
        vec![255],
        // 255
        vec![255],
        // 255
        vec![255],
        // 255
        vec![255],
        // 255
        vec![255],
        // 255
        vec![255],
        // 255
        vec![255],
        // 255
        vec![255],
        // 255
        vec![255],
        // 255
        vec![255],
        // 255
        vec![255],
        // 255
        vec![255],
        // 255
        vec![255],
        // 255
        vec![255],
        // 255
        vec![255],
        // 255
        vec![255],
        // 255
        vec![255],
        // 255
        vec![255],
        // 255
        vec![255],
        // 255
        vec![255],
        // 255
        vec![255],
        // 255
        vec![255],
        // 255
        vec![255],
        // 255
        vec![255],
        // 255
        vec![255],
        // 255
        vec![255],
        // 255
        vec![255],
        // 255
        vec![255],
        // 255
        vec![255],
        // 255
        vec![255],
        // 255
        vec![255],
        // 255
        vec![255],
        // 255
        vec![255],
        // 255
        vec![255],
        // 255
        vec![255],
        // 255
        vec![255],
        // 255
        vec![255],
        // 255
        vec![255],
        // 255
        vec![255],
        // 255
        vec![255],
        // 255
        vec![255],
        // 255
        vec![255],
        // 255
        vec![255],
        // 255
        vec![255],
        // 255
        vec![255],
        // 255
        vec![255],
        // 255
        vec![255],
        // 9
        vec![9],
        // 0
        vec![0],
        // 0
        vec![0],
        // 0
        vec![0],
        // 255
        vec![255],
        // 255
        vec![255],
        // 255
        vec![255],
        // 255
        vec![255],
        // 255
        vec![255],
        // 255
        vec![255],
        // 255
        vec![255],
        // 255
        vec![255],
        // 255
        vec![255],
        // 30
        vec![30],
        // 0
        vec![0],
        // 0
        vec![0],
        // 255
        vec![255],
        // 255
        vec![255],
        // 255
        vec![255],
        // 255
        vec![255],
        // 255
        vec![255],
        // 255
        vec![255],
        // 255
        vec![255],
        // 30
        vec![30],
        // 0
        vec![0],
        // 0
        vec![0],
        // 255
        vec![255],
        // 255
        vec![255],
        // 255
        vec![255],
        // 255
        vec![255],
        // 255
        vec![255],
        // 33
        vec![33],
        // 255
        vec![255],
        // 255
        vec![255],
        // 255
        vec![255],
        // 255
        vec![255],
        // 255
        vec![255],
        // 0
        vec![0],
        // 255
        vec![255],
        // 255
        vec![255],
        // 255
        vec![255],
        // 255
        vec![255],
        // 255
        vec![255],
        // 255
        vec![255],
        // 255
        vec![255],
        // 255
        vec![255],
        // 255
        vec![255],
        // 255
        vec![255],
        // 37
        vec![37],
        // 0
        vec![0],
        // 255
        vec![255],
        // 255
        vec![255],
        // 255
        vec![255],
        // 255
        vec![255],
        // 37
        vec![37],
        // 0
        vec![0],
        // 255
        vec![255],
        // 255
        vec![255],
        // 255
        vec![255],
        // 255
        vec![255],
        // 37
        vec![37],
        // 0
        vec![0],
        // 255
        vec![255],
        // 255
        vec![255],
        // 255
        vec![255],
        // 255
        vec![255],
        // 37
        vec![37],
        // 0
        vec![0],
        // 255
        vec![255],
        // 255
        vec![255],
        // 255
        vec![255],
        // 255
        vec![255],
        // 37
        vec![37],
        // 0
        vec![0],
        // 255
        vec![255],
        // 255
        vec![255],
        // 255
        vec![255],
        // 255
        vec![255],
        // 43
        vec![43],
        // 0
        vec![0],
        // 255
        vec![255],
        // 255
        vec![255],
        // 255
        vec![255],
        // 255
        vec![255],
        // 255
        vec![255],
        // 255
        vec![255],
        // 255
        vec![255],
        // 255
        vec![255],
        // 255
        vec![255],
        // 255
        vec![255],
        // 255
        vec![255],
        // 255
        vec![255],
        // 255
        vec![255],
        // 255
        vec![255],
        // 255
        vec![255],
        // 255
        vec![255],
        // 255
        vec![255],
        // 255
        vec![255],
        // 255
        vec![255],
        // 255
        vec![255],
        // 255
        vec![255],
        // 255
        vec![255],
        // 255
        vec![255],
        // 255
        vec![255],
        // 255
        vec![255],
        // 255
        vec![255],
        // 255
        vec![255],
        // 255
        vec![255],
        // 255
        vec![255],
        // 255
        vec![255],
        // 255
        vec![255],
        // 255
        vec![255],
        // 255
        vec![255],
        // 255
        vec![255],
        // 255
        vec![255],
        // 255
        vec![255],
        // 255
        vec![255],
        // 255
        vec![255],
        // 255
        vec![255],
        // 255
        vec![255],
        // 255
        vec![255],
        // 255
        vec![255],
        // 255
        vec![255],
        // 255
        vec![255],
        // 255
        vec![255],
        // 255
        vec![255],
        // 255
        vec![255],
        // 255
        vec![255],
        // 255
        vec![255],
        // 255
        vec![255],
        // 255
        vec![255],
        // 255
        vec![255],
        // 255
        vec![255],
        // 255
        vec![255],
        // 255
        vec![255],
        // 255
        vec![255],
        // 255
        vec![255],
        // 255
        vec![255],
        // 255
        vec![255],
        // 255
        vec![255],
        // 255
        vec![255],
        // 255
        vec![255],
        // 255
        vec![255],
        // 255
        vec![255],
        // 255
        vec![255],
        // 255
        vec![255],
        // 255
        vec![255],
        // 255
        vec![255],
        // 255
        vec![255],
        // 255
        vec![255],
        // 255
        vec![255],
        // 255
        vec![255],
        // 255
        vec![255],
        // 255
        vec![255],
        // 255
        vec![255],
        // 255
        vec![255],
        // 255
        vec![255],
        // 255
        vec![255],
        // 255
        vec![255],
        // 255
        vec![255],
        // 255
        vec![255],
        // 255
        vec![255],
        // 255
        vec![255],
        // 255
        vec![255],
        // 255
        vec![255],
        // 0
        vec![0],
        // 0
        vec![0],
        // 0
        vec![0],
        // 0
        vec![0],
        // 126
        vec![126],
        // 126
        vec![126],
        // 126
        vec![126],
        // 4294901790
        vec![30, 0, 255, 255],
        // 1
        vec![1],
    ];
    kani::concrete_playback_run(concrete_vals, c18_q_vba_modules_1_readonly);
}

/// Test generated for harness `vba::k_c18_vba::c18_q_vba_modules_1_readonly` 
///
/// Check for `assertion`: ""module source offset as recorded (all 32 bits)""
///
/// # Warning
///
/// Concrete playback tests combined with stubs or contracts is highly
/// experimental, and subject to change.
///
/// The original harness has stubs which are not applied to this test.
/// This may cause a mismatch of non-deterministic values if the stub
/// creates any non-deterministic value.
/// The execution path may also differ, which can be used to refine the stub
/// logic.

#[test]
fn kani_concrete_playback_c18_q_vba_modules_1_readonly_17400774199478804491() {
    let concrete_vals: Vec<Vec<u8>> = vec![
        // 0
        vec![0],
        // 255
        vec![255],
        // 255
        vec![255],
        // 255
        vec![255],
        // 255
        vec![255],
        // 255
        vec![255],
        // 255
        vec![255],
        // 255
        vec![255],
        // 255
        vec![255],
        // 255
        vec![255],
        // 255
        vec![255],
        // 255
        vec![255],
        // 255
        vec![255],
        // 255
        vec![255],
        // 255
        vec![255],
        // 255
        vec![255],
        // 255
        vec![255],
        // 255
        vec![255],
        // 255
        vec![255],
        // 255
        vec![255],
        // 255
        vec![255],
        // 255
        vec![255],
        // 255
        vec![255],
        // 255
        vec![255],
        // 255
        vec![255],
        // 255
        vec![255],
        // 255
        vec![255],
        // 255
        vec![255],
        // 255
        vec![255],
        // 255
        vec![255],
        // 255
        vec![255],
        // 255
        vec![255],
        // 255
        vec![255],
        // 255
        vec![255],
        // 255
        vec![255],
        // 255
        vec![255],
        // 255
        vec![255],
        // 255
        vec![255],
        // 255
        vec![255],
        // 255
        vec![255],
        // 255
        vec![255],
        // 255
        vec![255],
        // 255
        vec![255],
        // 255
        vec![255],
        // 255
        vec![255],
        // 255
        vec![255],
        // 255
        vec![255],
        // 255
        vec![255],
        // 255
        vec![255],
        // 255
        vec![255],
        // 255
        vec![255],
        // 255
        vec![255],
        // 255
        vec![255],
        // 255
        vec![255],
        // 255
        vec![255],
        // 6
        vec![6],
        // 0
        vec![0],
        // 0
        vec![0],
        // 0
        vec![0],
        // 255
        vec![255],
        // 255
        vec![255],
        // 255
        vec![255],
        // 255
        vec![255],
        // 255
        vec![255],
        // 255
        vec![255],
        // 30
        vec![30],
        // 0
        vec![0],
        // 0
        vec![0],
        // 0
        vec![0],
        // 0
        vec![0],
        // 0
        vec![0],
        // 44
        vec![44],
        // 0
        vec![0],
        // 255
        vec![255],
        // 255
        vec![255],
        // 44
        vec![44],
        // 0
        vec![0],
        // 0
        vec![0],
        // 0
        vec![0],
        // 0
        vec![0],
        // 0
        vec![0],
        // 255
        vec![255],
        // 255
        vec![255],
        // 33
        vec![33],
        // 0
        vec![0],
        // 42
        vec![42],
        // 0
        vec![0],
        // 255
        vec![255],
        // 255
        vec![255],
        // 43
        vec![43],
        // 0
        vec![0],
        // 0
        vec![0],
        // 0
        vec![0],
        // 255
        vec![255],
        // 255
        vec![255],
        // 43
        vec![43],
        // 0
        vec![0],
        // 30
        vec![30],
        // 0
        vec![0],
        // 255
        vec![255],
        // 255
        vec![255],
        // 43
        vec![43],
        // 0
        vec![0],
        // 43
        vec![43],
        // 0
        vec![0],
        // 255
        vec![255],
        // 44
        vec![44],
        // 37
        vec![37],
        // 0
        vec![0],
        // 40
        vec![40],
        // 0
        vec![0],
        // 255
        vec![255],
        // 255
        vec![255],
        // 40
        vec![40],
        // 0
        vec![0],
        // 37
        vec![37],
        // 0
        vec![0],
        // 255
        vec![255],
        // 255
        vec![255],
        // 37
        vec![37],
        // 0
        vec![0],
        // 40
        vec![40],
        // 0
        vec![0],
        // 255
        vec![255],
        // 255
        vec![255],
        // 43
        vec![43],
        // 0
        vec![0],
        // 43
        vec![43],
        // 0
        vec![0],
        // 255
        vec![255],
        // 255
        vec![255],
        // 43
        vec![43],
        // 0
        vec![0],
        // 0
        vec![0],
        // 0
        vec![0],
        // 255
        vec![255],
        // 255
        vec![255],
        // 255
        vec![255],
        // 40
        vec![40],
        // 0
        vec![0],
        // 255
        vec![255],
        // 255
        vec![255],
        // 255
        vec![255],
        // 255
        vec![255],
        // 37
        vec![37],
        // 0
        vec![0],
        // 255
        vec![255],
        // 255
        vec![255],
        // 255
        vec![255],
        // 255
        vec![255],
        // 40
        vec![40],
        // 0
        vec![0],
        // 255
        vec![255],
        // 255
        vec![255],
        // 255
        vec![255],
        // 255
        vec![255],
        // 37
        vec![37],
        // 0
        vec![0],
        // 255
        vec![255],
        // 255
        vec![255],
        // 255
        vec![255],
        // 255
        vec![255],
        // 43
        vec![43],
        // 0
        vec![0],
        // 255
        vec![255],
        // 255
        vec![255],
        // 255
        vec![255],
        // 255
        vec![255],
        // 255
        vec![255],
        // 255
        vec![255],
        // 255
        vec![255],
        // 255
        vec![255],
        // 255
        vec![255],
        // 255
        vec![255],
        // 255
        vec![255],
        // 255
        vec![255],
        // 255
        vec![255],
        // 255
        vec![255],
        // 255
        vec![255],
        // 255
        vec![255],
        // 255
        vec![255],
        // 255
        vec![255],
        // 255
        vec![255],
        // 255
        vec![255],
        // 255
        vec![255],
        // 255
        vec![255],
        // 255
        vec![255],
        // 255
        vec![255],
        // 255
        vec![255],
        // 255
        vec![255],
        // 255
        vec![255],
        // 255
        vec![255],
        // 255
        vec![255],
        // 255
        vec![255],
        // 255
        vec![255],
        // 255
        vec![255],
        // 255
        vec![255],
        // 255
        vec![255],
        // 255
        vec![255],
        // 255
        vec![255],
        // 255
        vec![255],
        // 255
        vec![255],
        // 255
        vec![255],
        // 255
        vec![255],
        // 255
        vec![255],
        // 255
        vec![255],
        // 255
        vec![255],
        // 255
        vec![255],
        // 255
        vec![255],
        // 255
        vec![255],
        // 255
        vec![255],
        // 255
        vec![255],
        // 255
        vec![255],
        // 255
        vec![255],
        // 255
        vec![255],
        // 255
        vec![255],
        // 255
        vec![255],
        // 255
        vec![255],
        // 255
        vec![255],
        // 255
        vec![255],
        // 0
        vec![0],
        // 0
        vec![0],
        // 0
        vec![0],
        // 0
        vec![0],
        // 123
        vec![123],
        // 123
        vec![123],
        // 123
        vec![123],
        // 65566
        vec![30, 0, 1, 0],
        // 0
        vec![0],
    ];
    kani::concrete_playback_run(concrete_vals, c18_q_vba_modules_1_readonly);
}

/// Test generated for harness `vba::k_c18_vba::c18_q_vba_modules_1_readonly` 
///
/// Check for `assertion`: ""the walk consumes exactly the module records""
///
/// # Warning
///
/// Concrete playback tests combined with stubs or contracts is highly
/// experimental, and subject to change.
///
/// The original harness has stubs which are not applied to this test.
/// This may cause a mismatch of non-deterministic values if the stub
/// creates any non-deterministic value.
/// The execution path may also differ, which can be used to refine the stub
/// logic.

#[test]
fn kani_concrete_playback_c18_q_vba_modules_1_readonly_13226066903844607546() {
    let concrete_vals: Vec<Vec<u8>> = vec![
        // 0
        vec![0],
        // 255
        vec![255],
        // 255
        vec![255],
        // 255
        vec![255],
        // 255
        vec![255],
        // 255
        vec![255],
        // 255
        vec![255],
        // 255
        vec![255],
        // 255
        vec![255],
        // 255
        vec![255],
        // 255
        vec![255],
        // 255
        vec![255],
        // 255
        vec![255],
        // 255
        vec![255],
        // 255
        vec![255],
        // 255
        vec![255],
        // 255
        vec![255],
        // 255
        vec![255],
        // 255
        vec![255],
        // 255
        vec![255],
        // 255
        vec![255],
        // 255
        vec![255],
        // 255
        vec![255],
        // 255
        vec![255],
        // 255
        vec![255],
        // 255
        vec![255],
        // 255
        vec![255],
        // 255
        vec![255],
        // 255
        vec![255],
        // 255
        vec![255],
        // 255
        vec![255],
        // 255
        vec![255],
        // 255
        vec![255],
        // 255
        vec![255],
        // 255
        vec![255],
        // 255
        vec![255],
        // 255
        vec![255],
        // 255
        vec![255],
        // 255
        vec![255],
        // 255
        vec![255],
        // 255
        vec![255],
        // 255
        vec![255],
        // 255
        vec![255],
        // 255
        vec![255],
        // 255
        vec![255],
        // 255
        vec![255],
        // 255
        vec![255],
        // 255
        vec![255],
        // 255
        vec![255],
        // 255
        vec![255],
        // 255
        vec![255],
        // 255
        vec![255],
        // 255
        vec![255],
        // 255
        vec![255],
        // 255
        vec![255],
        // 7
        vec![7],
        // 0
        vec![0],
        // 0
        vec![0],
        // 0
        vec![0],
        // 255
        vec![255],
        // 255
        vec![255],
        // 255
        vec![255],
        // 255
        vec![255],
        // 255
        vec![255],
        // 255
        vec![255],
        // 30
        vec![30],
        // 30
        vec![30],
        // 0
        vec![0],
        // 0
        vec![0],
        // 0
        vec![0],
        // 0
        vec![0],
        // 44
        vec![44],
        // 0
        vec![0],
        // 255
        vec![255],
        // 255
        vec![255],
        // 44
        vec![44],
        // 44
        vec![44],
        // 0
        vec![0],
        // 0
        vec![0],
        // 0
        vec![0],
        // 0
        vec![0],
        // 255
        vec![255],
        // 255
        vec![255],
        // 33
        vec![33],
        // 33
        vec![33],
        // 0
        vec![0],
        // 0
        vec![0],
        // 255
        vec![255],
        // 255
        vec![255],
        // 43
        vec![43],
        // 43
        vec![43],
        // 0
        vec![0],
        // 0
        vec![0],
        // 255
        vec![255],
        // 255
        vec![255],
        // 43
        vec![43],
        // 43
        vec![43],
        // 0
        vec![0],
        // 0
        vec![0],
        // 255
        vec![255],
        // 255
        vec![255],
        // 43
        vec![43],
        // 43
        vec![43],
        // 0
        vec![0],
        // 0
        vec![0],
        // 255
        vec![255],
        // 44
        vec![44],
        // 37
        vec![37],
        // 37
        vec![37],
        // 0
        vec![0],
        // 0
        vec![0],
        // 255
        vec![255],
        // 255
        vec![255],
        // 40
        vec![40],
        // 40
        vec![40],
        // 0
        vec![0],
        // 0
        vec![0],
        // 255
        vec![255],
        // 255
        vec![255],
        // 37
        vec![37],
        // 37
        vec![37],
        // 0
        vec![0],
        // 0
        vec![0],
        // 255
        vec![255],
        // 255
        vec![255],
        // 43
        vec![43],
        // 40
        vec![40],
        // 0
        vec![0],
        // 0
        vec![0],
        // 255
        vec![255],
        // 255
        vec![255],
        // 43
        vec![43],
        // 43
        vec![43],
        // 0
        vec![0],
        // 0
        vec![0],
        // 255
        vec![255],
        // 255
        vec![255],
        // 255
        vec![255],
        // 40
        vec![40],
        // 0
        vec![0],
        // 255
        vec![255],
        // 255
        vec![255],
        // 255
        vec![255],
        // 255
        vec![255],
        // 37
        vec![37],
        // 0
        vec![0],
        // 255
        vec![255],
        // 255
        vec![255],
        // 255
        vec![255],
        // 255
        vec![255],
        // 40
        vec![40],
        // 0
        vec![0],
        // 255
        vec![255],
        // 255
        vec![255],
        // 255
        vec![255],
        // 255
        vec![255],
        // 37
        vec![37],
        // 0
        vec![0],
        // 255
        vec![255],
        // 255
        vec![255],
        // 255
        vec![255],
        // 255
        vec![255],
        // 43
        vec![43],
        // 0
        vec![0],
        // 255
        vec![255],
        // 255
        vec![255],
        // 255
        vec![255],
        // 255
        vec![255],
        // 255
        vec![255],
        // 255
        vec![255],
        // 255
        vec![255],
        // 255
        vec![255],
        // 255
        vec![255],
        // 255
        vec![255],
        // 255
        vec![255],
        // 255
        vec![255],
        // 255
        vec![255],
        // 255
        vec![255],
        // 255
        vec![255],
        // 255
        vec![255],
        // 255
        vec![255],
        // 255
        vec![255],
        // 255
        vec![255],
        // 255
        vec![255],
        // 255
        vec![255],
        // 255
        vec![255],
        // 255
        vec![255],
        // 255
        vec![255],
        // 255
        vec![255],
        // 255
        vec![255],
        // 255
        vec![255],
        // 255
        vec![255],
        // 255
        vec![255],
        // 255
        vec![255],
        // 255
        vec![255],
        // 255
        vec![255],
        // 255
        vec![255],
        // 255
        vec![255],
        // 255
        vec![255],
        // 255
        vec![255],
        // 255
        vec![255],
        // 255
        vec![255],
        // 255
        vec![255],
        // 255
        vec![255],
        // 255
        vec![255],
        // 255
        vec![255],
        // 255
        vec![255],
        // 255
        vec![255],
        // 255
        vec![255],
        // 255
        vec![255],
        // 255
        vec![255],
        // 255
        vec![255],
        // 255
        vec![255],
        // 255
        vec![255],
        // 255
        vec![255],
        // 255
        vec![255],
        // 255
        vec![255],
        // 255
        vec![255],
        // 255
        vec![255],
        // 255
        vec![255],
        // 0
        vec![0],
        // 0
        vec![0],
        // 0
        vec![0],
        // 0
        vec![0],
        // 123
        vec![123],
        // 123
        vec![123],
        // 123
        vec![123],
        // 30
        vec![30, 0, 0, 0],
        // 0
        vec![0],
    ];
    kani::concrete_playback_run(concrete_vals, c18_q_vba_modules_1_readonly);
}

/// Test generated for harness `vba::k_c18_vba::c18_q_vba_modules_1_readonly` 
///
/// Check for `cover`: "end"
///
/// # Warning
///
/// Concrete playback tests combined with stubs or contracts is highly
/// experimental, and subject to change.
///
/// The original harness has stubs which are not applied to this test.
/// This may cause a mismatch of non-deterministic values if the stub
/// creates any non-deterministic value.
/// The execution path may also differ, which can be used to refine the stub
/// logic.

#[test]
fn kani_concrete_playback_c18_q_vba_modules_1_readonly_3750949557236223564() {
    let concrete_vals: Vec<Vec<u8>> = vec![
        // 0
        vec![0],
        // 255
        vec![255],
        // 255
        vec![255],
        // 255
        vec![255],
        // 255
        vec![255],
        // 255
        vec![255],
        // 255
        vec![255],
        // 255
        vec![255],
        // 255
        vec![255],
        // 255
        vec![255],
        // 255
        vec![255],
        // 255
        vec![255],
        // 255
        vec![255],
        // 255
        vec![255],
        // 255
        vec![255],
        // 255
        vec![255],
        // 255
        vec![255],
        // 255
        vec![255],
        // 255
        vec![255],
        // 255
        vec![255],
        // 255
        vec![255],
        // 255
        vec![255],
        // 255
        vec![255],
        // 255
        vec![255],
        // 255
        vec![255],
        // 255
        vec![255],
        // 255
        vec![255],
        // 255
        vec![255],
        // 255
        vec![255],
        // 255
        vec![255],
        // 255
        vec![255],
        // 255
        vec![255],
        // 255
        vec![255],
        // 255
        vec![255],
        // 255
        vec![255],
        // 255
        vec![255],
        // 255
        vec![255],
        // 255
        vec![255],
        // 255
        vec![255],
        // 255
        vec![255],
        // 255
        vec![255],
        // 255
        vec![255],
        // 255
        vec![255],
        // 255
        vec![255],
        // 255
        vec![255],
        // 255
        vec![255],
        // 255
        vec![255],
        // 255
        vec![255],
        // 255
        vec![255],
        // 255
        vec![255],
        // 255
        vec![255],
        // 255
        vec![255],
        // 255
        vec![255],
        // 255
        vec![255],
        // 255
        vec![255],
        // 4
        vec![4],
        // 0
        vec![0],
        // 0
        vec![0],
        // 0
        vec![0],
        // 255
        vec![255],
        // 255
        vec![255],
        // 255
        vec![255],
        // 255
        vec![255],
        // 255
        vec![255],
        // 255
        vec![255],
        // 30
        vec![30],
        // 30
        vec![30],
        // 0
        vec![0],
        // 0
        vec![0],
        // 0
        vec![0],
        // 0
        vec![0],
        // 44
        vec![44],
        // 0
        vec![0],
        // 255
        vec![255],
        // 255
        vec![255],
        // 44
        vec![44],
        // 44
        vec![44],
        // 0
        vec![0],
        // 0
        vec![0],
        // 0
        vec![0],
        // 0
        vec![0],
        // 255
        vec![255],
        // 255
        vec![255],
        // 33
        vec![33],
        // 33
        vec![33],
        // 0
        vec![0],
        // 0
        vec![0],
        // 255
        vec![255],
        // 255
        vec![255],
        // 43
        vec![43],
        // 43
        vec![43],
        // 0
        vec![0],
        // 0
        vec![0],
        // 255
        vec![255],
        // 255
        vec![255],
        // 43
        vec![43],
        // 43
        vec![43],
        // 0
        vec![0],
        // 0
        vec![0],
        // 255
        vec![255],
        // 255
        vec![255],
        // 43
        vec![43],
        // 43
        vec![43],
        // 37
        vec![37],
        // 0
        vec![0],
        // 255
        vec![255],
        // 44
        vec![44],
        // 37
        vec![37],
        // 37
        vec![37],
        // 40
        vec![40],
        // 0
        vec![0],
        // 255
        vec![255],
        // 255
        vec![255],
        // 40
        vec![40],
        // 40
        vec![40],
        // 37
        vec![37],
        // 0
        vec![0],
        // 255
        vec![255],
        // 255
        vec![255],
        // 37
        vec![37],
        // 37
        vec![37],
        // 40
        vec![40],
        // 0
        vec![0],
        // 255
        vec![255],
        // 255
        vec![255],
        // 43
        vec![43],
        // 40
        vec![40],
        // 43
        vec![43],
        // 0
        vec![0],
        // 255
        vec![255],
        // 255
        vec![255],
        // 43
        vec![43],
        // 43
        vec![43],
        // 0
        vec![0],
        // 0
        vec![0],
        // 255
        vec![255],
        // 255
        vec![255],
        // 255
        vec![255],
        // 40
        vec![40],
        // 0
        vec![0],
        // 255
        vec![255],
        // 255
        vec![255],
        // 255
        vec![255],
        // 255
        vec![255],
        // 37
        vec![37],
        // 0
        vec![0],
        // 255
        vec![255],
        // 255
        vec![255],
        // 255
        vec![255],
        // 255
        vec![255],
        // 40
        vec![40],
        // 0
        vec![0],
        // 255
        vec![255],
        // 255
        vec![255],
        // 255
        vec![255],
        // 255
        vec![255],
        // 37
        vec![37],
        // 0
        vec![0],
        // 255
        vec![255],
        // 255
        vec![255],
        // 255
        vec![255],
        // 255
        vec![255],
        // 43
        vec![43],
        // 0
        vec![0],
        // 255
        vec![255],
        // 255
        vec![255],
        // 255
        vec![255],
        // 255
        vec![255],
        // 255
        vec![255],
        // 255
        vec![255],
        // 255
        vec![255],
        // 255
        vec![255],
        // 255
        vec![255],
        // 255
        vec![255],
        // 255
        vec![255],
        // 255
        vec![255],
        // 255
        vec![255],
        // 255
        vec![255],
        // 255
        vec![255],
        // 255
        vec![255],
        // 255
        vec![255],
        // 255
        vec![255],
        // 255
        vec![255],
        // 255
        vec![255],
        // 255
        vec![255],
        // 255
        vec![255],
        // 255
        vec![255],
        // 255
        vec![255],
        // 255
        vec![255],
        // 255
        vec![255],
        // 255
        vec![255],
        // 255
        vec![255],
        // 255
        vec![255],
        // 255
        vec![255],
        // 255
        vec![255],
        // 255
        vec![255],
        // 255
        vec![255],
        // 255
        vec![255],
        // 255
        vec![255],
        // 255
        vec![255],
        // 255
        vec![255],
        // 255
        vec![255],
        // 255
        vec![255],
        // 255
        vec![255],
        // 255
        vec![255],
        // 255
        vec![255],
        // 255
        vec![255],
        // 255
        vec![255],
        // 255
        vec![255],
        // 255
        vec![255],
        // 255
        vec![255],
        // 255
        vec![255],
        // 255
        vec![255],
        // 255
        vec![255],
        // 255
        vec![255],
        // 255
        vec![255],
        // 255
        vec![255],
        // 255
        vec![255],
        // 255
        vec![255],
        // 255
        vec![255],
        // 0
        vec![0],
        // 0
        vec![0],
        // 0
        vec![0],
        // 0
        vec![0],
        // 123
        vec![123],
        // 123
        vec![123],
        // 123
        vec![123],
        // 30
        vec![30, 0, 0, 0],
        // 0
        vec![0],
    ];
    kani::concrete_playback_run(concrete_vals, c18_q_vba_modules_1_readonly);
}

/// Test generated for harness `vba::k_c18_vba::c18_q_vba_modules_1_readonly` 
///
/// Check for `assertion`: "This is a placeholder message; Kani doesn't support message formatted at runtime"
///
/// # Warning
///
/// Concrete playback tests combined with stubs or contracts is highly
/// experimental, and subject to change.
///
/// The original harness has stubs which are not applied to this test.
/// This may cause a mismatch of non-deterministic values if the stub
/// creates any non-deterministic value.
/// The execution path may also differ, which can be used to refine the stub
/// logic.

#[test]
fn kani_concrete_playback_c18_q_vba_modules_1_readonly_5216795173778540806() {
    let concrete_vals: Vec<Vec<u8>> = vec![
        // 0
        vec![0],
        // 0
        vec![0],
        // 0
        vec![0],
        // 0
        vec![0],
        // 0
        vec![0],
        // 0
        vec![0],
        // 0
        vec![0],
        // 0
        vec![0],
        // 0
        vec![0],
        // 0
        vec![0],
        // 0
        vec![0],
        // 0
        vec![0],
        // 0
        vec![0],
        // 0
        vec![0],
        // 0
        vec![0],
        // 0
        vec![0],
        // 0
        vec![0],
        // 0
        vec![0],
        // 0
        vec![0],
        // 0
        vec![0],
        // 0
        vec![0],
        // 0
        vec![0],
        // 0
        vec![0],
        // 0
        vec![0],
        // 0
        vec![0],
        // 0
        vec![0],
        // 0
        vec![0],
        // 0
        vec![0],
        // 0
        vec![0],
        // 0
        vec![0],
        // 0
        vec![0],
        // 0
        vec![0],
        // 0
        vec![0],
        // 0
        vec![0],
        // 0
        vec![0],
        // 0
        vec![0],
        // 0
        vec![0],
        // 0
        vec![0],
        // 0
        vec![0],
        // 0
        vec![0],
        // 0
        vec![0],
        // 0
        vec![0],
        // 0
        vec![0],
        // 0
        vec![0],
        // 0
        vec![0],
        // 0
        vec![0],
        // 0
        vec![0],
        // 0
        vec![0],
        // 0
        vec![0],
        // 0
        vec![0],
        // 0
        vec![0],
        // 0
        vec![0],
        // 0
        vec![0],
        // 0
        vec![0],
        // 0
        vec![0],
        // 0
        vec![0],
        // 0
        vec![0],
        // 0
        vec![0],
        // 128
        vec![128],
        // 0
        vec![0],
        // 0
        vec![0],
        // 0
        vec![0],
        // 0
        vec![0],
        // 0
        vec![0],
        // 0
        vec![0],
        // 0
        vec![0],
        // 0
        vec![0],
        // 0
        vec![0],
        // 0
        vec![0],
        // 0
        vec![0],
        // 0
        vec![0],
        // 0
        vec![0],
        // 0
        vec![0],
        // 0
        vec![0],
        // 0
        vec![0],
        // 0
        vec![0],
        // 0
        vec![0],
        // 0
        vec![0],
        // 0
        vec![0],
        // 0
        vec![0],
        // 0
        vec![0],
        // 0
        vec![0],
        // 0
        vec![0],
        // 0
        vec![0],
        // 0
        vec![0],
        // 0
        vec![0],
        // 0
        vec![0],
        // 0
        vec![0],
        // 0
        vec![0],
        // 0
        vec![0],
        // 0
        vec![0],
        // 0
        vec![0],
        // 0
        vec![0],
        // 0
        vec![0],
        // 0
        vec![0],
        // 0
        vec![0],
        // 0
        vec![0],
        // 0
        vec![0],
        // 0
        vec![0],
        // 0
        vec![0],
        // 0
        vec![0],
        // 0
        vec![0],
        // 0
        vec![0],
        // 0
        vec![0],
        // 0
        vec![0],
        // 0
        vec![0],
        // 0
        vec![0],
        // 0
        vec![0],
        // 0
        vec![0],
        // 0
        vec![0],
        // 0
        vec![0],
        // 0
        vec![0],
        // 0
        vec![0],
        // 0
        vec![0],
        // 0
        vec![0],
        // 0
        vec![0],
        // 0
        vec![0],
        // 0
        vec![0],
        // 0
        vec![0],
        // 0
        vec![0],
        // 0
        vec![0],
        // 0
        vec![0],
        // 0
        vec![0],
        // 0
        vec![0],
        // 0
        vec![0],
        // 0
        vec![0],
        // 0
        vec![0],
        // 0
        vec![0],
        // 0
        vec![0],
        // 0
        vec![0],
        // 0
        vec![0],
        // 0
        vec![0],
        // 0
        vec![0],
        // 0
        vec![0],
        // 0
        vec![0],
        // 0
        vec![0],
        // 0
        vec![0],
        // 0
        vec![0],
        // 0
        vec![0],
        // 0
        vec![0],
        // 0
        vec![0],
        // 0
        vec![0],
        // 0
        vec![0],
        // 0
        vec![0],
        // 0
        vec![0],
        // 0
        vec![0],
        // 0
        vec![0],
        // 0
        vec![0],
        // 0
        vec![0],
        // 0
        vec![0],
        // 0
        vec![0],
        // 0
        vec![0],
        // 0
        vec![0],
        // 0
        vec![0],
        // 0
        vec![0],
        // 0
        vec![0],
        // 0
        vec![0],
        // 0
        vec![0],
        // 0
        vec![0],
        // 0
        vec![0],
        // 0
        vec![0],
        // 0
        vec![0],
        // 0
        vec![0],
        // 0
        vec![0],
        // 0
        vec![0],
        // 0
        vec![0],
        // 0
        vec![0],
        // 0
        vec![0],
        // 0
        vec![0],
        // 0
        vec![0],
        // 0
        vec![0],
        // 0
        vec![0],
        // 0
        vec![0],
        // 0
        vec![0],
        // 0
        vec![0],
        // 0
        vec![0],
        // 0
        vec![0],
        // 0
        vec![0],
        // 0
        vec![0],
        // 0
        vec![0],
        // 0
        vec![0],
        // 0
        vec![0],
        // 0
        vec![0],
        // 0
        vec![0],
        // 0
        vec![0],
        // 0
        vec![0],
        // 0
        vec![0],
        // 0
        vec![0],
        // 0
        vec![0],
        // 0
        vec![0],
        // 0
        vec![0],
        // 0
        vec![0],
        // 0
        vec![0],
        // 0
        vec![0],
        // 0
        vec![0],
        // 0
        vec![0],
        // 0
        vec![0],
        // 0
        vec![0],
        // 0
        vec![0],
        // 0
        vec![0],
        // 0
        vec![0],
        // 0
        vec![0],
        // 0
        vec![0],
        // 0
        vec![0],
        // 0
        vec![0],
        // 0
        vec![0],
        // 0
        vec![0],
        // 0
        vec![0],
        // 0
        vec![0],
        // 0
        vec![0],
        // 0
        vec![0],
        // 0
        vec![0],
        // 0
        vec![0],
        // 0
        vec![0],
        // 0
        vec![0],
        // 0
        vec![0],
        // 0
        vec![0],
        // 0
        vec![0],
        // 0
        vec![0],
        // 0
        vec![0],
        // 0
        vec![0],
        // 0
        vec![0],
        // 0
        vec![0],
        // 0
        vec![0],
        // 64
        vec![64],
        // 64
        vec![64],
        // 64
        vec![64],
        // 0
        vec![0, 0, 0, 0],
        // 0
        vec![0],
    ];
    kani::concrete_playback_run(concrete_vals, c18_q_vba_modules_1_readonly);
}

/// Test generated for harness `vba::k_c18_vba::c18_q_vba_modules_1_readonly` 
///
/// Check for `assertion`: "This is a placeholder message; Kani doesn't support message formatted at runtime"
///
/// # Warning
///
/// Concrete playback tests combined with stubs or contracts is highly
/// experimental, and subject to change.
///
/// The original harness has stubs which are not applied to this test.
/// This may cause a mismatch of non-deterministic values if the stub
/// creates any non-deterministic value.
/// The execution path may also differ, which can be used to refine the stub
/// logic.

#[test]
fn kani_concrete_playback_c18_q_vba_modules_1_readonly_15058992567340186114() {
    let concrete_vals: Vec<Vec<u8>> = vec![
        // 0
        vec![0],
        // 255
        vec![255],
        // 255
        vec![255],
        // 255
        vec![255],
        // 255
        vec![255],
        // 255
        vec![255],
        // 255
        vec![255],
        // 255
        vec![255],
        // 255
        vec![255],
        // 255
        vec![255],
        // 255
        vec![255],
        // 255
        vec![255],
        // 255
        vec![255],
        // 255
        vec![255],
        // 255
        vec![255],
        // 255
        vec![255],
        // 255
        vec![255],
        // 255
        vec![255],
        // 255
        vec![255],
        // 255
        vec![255],
        // 255
        vec![255],
        // 255
        vec![255],
        // 255
        vec![255],
        // 255
        vec![255],
        // 255
        vec![255],
        // 255
        vec![255],
        // 255
        vec![255],
        // 255
        vec![255],
        // 255
        vec![255],
        // 255
        vec![255],
        // 255
        vec![255],
        // 255
        vec![255],
        // 255
        vec![255],
        // 255
        vec![255],
        // 255
        vec![255],
        // 255
        vec![255],
        // 255
        vec![255],
        // 255
        vec![255],
        // 255
        vec![255],
        // 255
        vec![255],
        // 255
        vec![255],
        // 255
        vec![255],
        // 255
        vec![255],
        // 255
        vec![255],
        // 255
        vec![255],
        // 255
        vec![255],
        // 255
        vec![255],
        // 255
        vec![255],
        // 255
        vec![255],
        // 255
        vec![255],
        // 255
        vec![255],
        // 255
        vec![255],
        // 255
        vec![255],
        // 255
        vec![255],
        // 255
        vec![255],
        // 37
        vec![37],
        // 0
        vec![0],
        // 0
        vec![0],
        // 0
        vec![0],
        // 255
        vec![255],
        // 255
        vec![255],
        // 255
        vec![255],
        // 255
        vec![255],
        // 255
        vec![255],
        // 255
        vec![255],
        // 255
        vec![255],
        // 255
        vec![255],
        // 30
        vec![30],
        // 0
        vec![0],
        // 0
        vec![0],
        // 0
        vec![0],
        // 44
        vec![44],
        // 0
        vec![0],
        // 255
        vec![255],
        // 255
        vec![255],
        // 30
        vec![30],
        // 0
        vec![0],
        // 44
        vec![44],
        // 0
        vec![0],
        // 0
        vec![0],
        // 0
        vec![0],
        // 255
        vec![255],
        // 255
        vec![255],
        // 255
        vec![255],
        // 255
        vec![255],
        // 44
        vec![44],
        // 0
        vec![0],
        // 255
        vec![255],
        // 255
        vec![255],
        // 255
        vec![255],
        // 255
        vec![255],
        // 43
        vec![43],
        // 0
        vec![0],
        // 255
        vec![255],
        // 255
        vec![255],
        // 255
        vec![255],
        // 30
        vec![30],
        // 0
        vec![0],
        // 255
        vec![255],
        // 255
        vec![255],
        // 255
        vec![255],
        // 255
        vec![255],
        // 255
        vec![255],
        // 37
        vec![37],
        // 0
        vec![0],
        // 255
        vec![255],
        // 44
        vec![44],
        // 0
        vec![0],
        // 255
        vec![255],
        // 37
        vec![37],
        // 0
        vec![0],
        // 255
        vec![255],
        // 255
        vec![255],
        // 255
        vec![255],
        // 33
        vec![33],
        // 0
        vec![0],
        // 0
        vec![0],
        // 255
        vec![255],
        // 255
        vec![255],
        // 255
        vec![255],
        // 37
        vec![37],
        // 0
        vec![0],
        // 0
        vec![0],
        // 255
        vec![255],
        // 255
        vec![255],
        // 255
        vec![255],
        // 40
        vec![40],
        // 0
        vec![0],
        // 0
        vec![0],
        // 255
        vec![255],
        // 255
        vec![255],
        // 255
        vec![255],
        // 40
        vec![40],
        // 0
        vec![0],
        // 0
        vec![0],
        // 255
        vec![255],
        // 255
        vec![255],
        // 255
        vec![255],
        // 40
        vec![40],
        // 0
        vec![0],
        // 255
        vec![255],
        // 255
        vec![255],
        // 255
        vec![255],
        // 255
        vec![255],
        // 37
        vec![37],
        // 0
        vec![0],
        // 255
        vec![255],
        // 255
        vec![255],
        // 255
        vec![255],
        // 255
        vec![255],
        // 40
        vec![40],
        // 0
        vec![0],
        // 255
        vec![255],
        // 255
        vec![255],
        // 255
        vec![255],
        // 255
        vec![255],
        // 37
        vec![37],
        // 0
        vec![0],
        // 255
        vec![255],
        // 255
        vec![255],
        // 255
        vec![255],
        // 255
        vec![255],
        // 43
        vec![43],
        // 0
        vec![0],
        // 255
        vec![255],
        // 255
        vec![255],
        // 255
        vec![255],
        // 255
        vec![255],
        // 255
        vec![255],
        // 255
        vec![255],
        // 255
        vec![255],
        // 255
        vec![255],
        // 255
        vec![255],
        // 255
        vec![255],
        // 255
        vec![255],
        // 255
        vec![255],
        // 255
        vec![255],
        // 255
        vec![255],
        // 255
        vec![255],
        // 255
        vec![255],
        // 255
        vec![255],
        // 255
        vec![255],
        // 255
        vec![255],
        // 255
        vec![255],
        // 255
        vec![255],
        // 255
        vec![255],
        // 255
        vec![255],
        // 255
        vec![255],
        // 255
        vec![255],
        // 255
        vec![255],
        // 255
        vec![255],
        // 255
        vec![255],
        // 255
        vec![255],
        // 255
        vec![255],
        // 255
        vec![255],
        // 255
        vec![255],
        // 255
        vec![255],
        // 255
        vec![255],
        // 255
        vec![255],
        // 255
        vec![255],
        // 255
        vec![255],
        // 255
        vec![255],
        // 255
        vec![255],
        // 255
        vec![255],
        // 255
        vec![255],
        // 255
        vec![255],
        // 255
        vec![255],
        // 255
        vec![255],
        // 255
        vec![255],
        // 255
        vec![255],
        // 255
        vec![255],
        // 255
        vec![255],
        // 255
        vec![255],
        // 255
        vec![255],
        // 255
        vec![255],
        // 255
        vec![255],
        // 255
        vec![255],
        // 255
        vec![255],
        // 255
        vec![255],
        // 255
        vec![255],
        // 0
        vec![0],
        // 0
        vec![0],
        // 0
        vec![0],
        // 0
        vec![0],
        // 123
        vec![123],
        // 123
        vec![123],
        // 126
        vec![126],
        // 30
        vec![30, 0, 0, 0],
        // 1
        vec![1],
    ];
    kani::concrete_playback_run(concrete_vals, c18_q_vba_modules_1_readonly);
}

/// Test generated for harness `vba::k_c18_vba::c18_q_vba_modules_1_readonly` 
///
/// Check for `assertion`: "This is a placeholder message; Kani doesn't support message formatted at runtime"
///
/// # Warning
///
/// Concrete playback tests combined with stubs or contracts is highly
/// experimental, and subject to change.
///
/// The original harness has stubs which are not applied to this test.
/// This may cause a mismatch of non-deterministic values if the stub
/// creates any non-deterministic value.
/// The execution path may also differ, which can be used to refine the stub
/// logic.

#[test]
fn kani_concrete_playback_c18_q_vba_modules_1_readonly_16391209843633655290() {
    let concrete_vals: Vec<Vec<u8>> = vec![
        // 0
        vec![0],
        // 0
        vec![0],
        // 0
        vec![0],
        // 0
        vec![0],
        // 0
        vec![0],
        // 0
        vec![0],
        // 0
        vec![0],
        // 0
        vec![0],
        // 0
        vec![0],
        // 0
        vec![0],
        // 0
        vec![0],
        // 0
        vec![0],
        // 0
        vec![0],
        // 0
        vec![0],
        // 0
        vec![0],
        // 0
        vec![0],
        // 0
        vec![0],
        // 0
        vec![0],
        // 0
        vec![0],
        // 0
        vec![0],
        // 0
        vec![0],
        // 0
        vec![0],
        // 0
        vec![0],
        // 0
        vec![0],
        // 0
        vec![0],
        // 0
        vec![0],
        // 0
        vec![0],
        // 0
        vec![0],
        // 0
        vec![0],
        // 0
        vec![0],
        // 0
        vec![0],
        // 0
        vec![0],
        // 0
        vec![0],
        // 0
        vec![0],
        // 0
        vec![0],
        // 0
        vec![0],
        // 0
        vec![0],
        // 0
        vec![0],
        // 0
        vec![0],
        // 0
        vec![0],
        // 0
        vec![0],
        // 0
        vec![0],
        // 0
        vec![0],
        // 0
        vec![0],
        // 0
        vec![0],
        // 0
        vec![0],
        // 0
        vec![0],
        // 0
        vec![0],
        // 0
        vec![0],
        // 0
        vec![0],
        // 0
        vec![0],
        // 0
        vec![0],
        // 0
        vec![0],
        // 0
        vec![0],
        // 0
        vec![0],
        // 1
        vec![1],
        // 0
        vec![0],
        // 0
        vec![0],
        // 0
        vec![0],
        // 0
        vec![0],
        // 0
        vec![0],
        // 0
        vec![0],
        // 0
        vec![0],
        // 0
        vec![0],
        // 0
        vec![0],
        // 0
        vec![0],
        // 0
        vec![0],
        // 0
        vec![0],
        // 0
        vec![0],
        // 0
        vec![0],
        // 44
        vec![44],
        // 0
        vec![0],
        // 0
        vec![0],
        // 0
        vec![0],
        // 0
        vec![0],
        // 0
        vec![0],
        // 0
        vec![0],
        // 0
        vec![0],
        // 33
        vec![33],
        // 0
        vec![0],
        // 0
        vec![0],
        // 0
        vec![0],
        // 0
        vec![0],
        // 0
        vec![0],
        // 37
        vec![37],
        // 0
        vec![0],
        // 0
        vec![0],
        // 0
        vec![0],
        // 0
        vec![0],
        // 0
        vec![0],
        // 37
        vec![37],
        // 0
        vec![0],
        // 0
        vec![0],
        // 0
        vec![0],
        // 0
        vec![0],
        // 0
        vec![0],
        // 37
        vec![37],
        // 0
        vec![0],
        // 0
        vec![0],
        // 0
        vec![0],
        // 0
        vec![0],
        // 0
        vec![0],
        // 37
        vec![37],
        // 0
        vec![0],
        // 0
        vec![0],
        // 0
        vec![0],
        // 0
        vec![0],
        // 0
        vec![0],
        // 37
        vec![37],
        // 0
        vec![0],
        // 0
        vec![0],
        // 0
        vec![0],
        // 0
        vec![0],
        // 0
        vec![0],
        // 37
        vec![37],
        // 0
        vec![0],
        // 0
        vec![0],
        // 0
        vec![0],
        // 0
        vec![0],
        // 0
        vec![0],
        // 37
        vec![37],
        // 0
        vec![0],
        // 0
        vec![0],
        // 0
        vec![0],
        // 0
        vec![0],
        // 0
        vec![0],
        // 37
        vec![37],
        // 0
        vec![0],
        // 0
        vec![0],
        // 0
        vec![0],
        // 0
        vec![0],
        // 0
        vec![0],
        // 0
        vec![0],
        // 0
        vec![0],
        // 0
        vec![0],
        // 0
        vec![0],
        // 0
        vec![0],
        // 0
        vec![0],
        // 0
        vec![0],
        // 0
        vec![0],
        // 0
        vec![0],
        // 0
        vec![0],
        // 0
        vec![0],
        // 0
        vec![0],
        // 0
        vec![0],
        // 0
        vec![0],
        // 0
        vec![0],
        // 0
        vec![0],
        // 0
        vec![0],
        // 0
        vec![0],
        // 0
        vec![0],
        // 0
        vec![0],
        // 0
        vec![0],
        // 0
        vec![0],
        // 0
        vec![0],
        // 0
        vec![0],
        // 0
        vec![0],
        // 0
        vec![0],
        // 0
        vec![0],
        // 0
        vec![0],
        // 0
        vec![0],
        // 0
        vec![0],
        // 0
        vec![0],
        // 0
        vec![0],
        // 0
        vec![0],
        // 0
        vec![0],
        // 0
        vec![0],
        // 0
        vec![0],
        // 0
        vec![0],
        // 0
        vec![0],
        // 0
        vec![0],
        // 0
        vec![0],
        // 0
        vec![0],
        // 0
        vec![0],
        // 0
        vec![0],
        // 0
        vec![0],
        // 0
        vec![0],
        // 0
        vec![0],
        // 0
        vec![0],
        // 0
        vec![0],
        // 0
        vec![0],
        // 0
        vec![0],
        // 0
        vec![0],
        // 0
        vec![0],
        // 0
        vec![0],
        // 0
        vec![0],
        // 0
        vec![0],
        // 0
        vec![0],
        // 0
        vec![0],
        // 0
        vec![0],
        // 0
        vec![0],
        // 0
        vec![0],
        // 0
        vec![0],
        // 0
        vec![0],
        // 0
        vec![0],
        // 0
        vec![0],
        // 0
        vec![0],
        // 0
        vec![0],
        // 0
        vec![0],
        // 0
        vec![0],
        // 0
        vec![0],
        // 0
        vec![0],
        // 0
        vec![0],
        // 0
        vec![0],
        // 0
        vec![0],
        // 0
        vec![0],
        // 0
        vec![0],
        // 0
        vec![0],
        // 0
        vec![0],
        // 0
        vec![0],
        // 0
        vec![0],
        // 0
        vec![0],
        // 0
        vec![0],
        // 0
        vec![0],
        // 0
        vec![0],
        // 0
        vec![0],
        // 0
        vec![0],
        // 0
        vec![0],
        // 0
        vec![0],
        // 0
        vec![0],
        // 0
        vec![0],
        // 0
        vec![0],
        // 0
        vec![0],
        // 0
        vec![0],
        // 64
        vec![64],
        // 64
        vec![64],
        // 64
        vec![64],
        // 7680
        vec![0, 30, 0, 0],
        // 0
        vec![0],
    ];
    kani::concrete_playback_run(concrete_vals, c18_q_vba_modules_1_readonly);
}
