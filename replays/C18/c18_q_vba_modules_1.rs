// Counterexample(s) for harness vba::k_c18_vba::c18_q_vba_modules_1 (property C18), produced by CBMC via Kani concrete playback.
// Replay: python3 /verif/run_check.py C18 --replay /verif/replays/C18/c18_q_vba_modules_1.rs
// (appends this test to the harness module in a scratch overlay of /repo and runs `cargo kani playback`).
/// Test generated for harness `vba::k_c18_vba::c18_q_vba_modules_1` 
///
/// Check for `assertion`: "This is a placeholder message; Kani doesn't support message formatted at runtime"
///
/// # Warning
///
/// Concrete playback tests combined with stubs or contracts is highly
/// experimental, and subject to change.
///
/// The original harness has stubs which are not applied to this test.
/// This may cause a mismatch of non-deterministic values if the stub
/// creates any non-deterministic value.
/// The execution path may also differ, which can be used to refine the stub
/// logic.

#[test]
fn kani_concrete_playback_c18_q_vba_modules_1_3155147970493848890() {
    let concrete_vals: Vec<Vec<u8>> = vec![
        // 255
        vec![255],
        // 255
        vec![255],
        // 255
        vec![255],
        // 255
        vec![255],
        // 255
        vec![255],
        // 255
        vec![255],
        // 255
        vec![255],
        // 255
        vec![255],
        // 255
        vec![255],
        // 255
        vec![255],
        // 255
        vec![255],
        // 255
        vec![255],
        // 255
        vec![255],
        // 255
        vec![255],
        // 255
        vec![255],
        // 255
        vec![255],
        // 255
        vec![255],
        // 255
        vec![255],
        // 255
        vec![255],
        // 255
        vec![255],
        // 255
        vec![255],
        // 255
        vec![255],
        // 255
        vec![255],
        // 255
        vec![255],
        // 255
        vec![255],
        // 255
        vec![255],
        // 255
        vec![255],
        // 255
        vec![255],
        // 255
        vec![255],
        // 255
        vec![255],
        // 255
        vec![255],
        // 255
        vec![255],
        // 255
        vec![255],
        // 255
        vec![255],
        // 255
        vec![255],
        // 255
        vec![255],
        // 255
        vec![255],
        // 255
        vec![255],
        // 255
        vec![255],
        // 255
        vec![255],
        // 255
        vec![255],
        // 255
        vec![255],
        // 255
        vec![255],
        // 255
        vec![255],
        // 255
        vec![255],
        // 255
        vec![255],
        // 255
        vec![255],
        // 255
        vec![255],
        // 255
        vec![255],
        // 255
        vec![255],
        // 255
        vec![255],
        // 255
        vec![255],
        // 255
        vec![255],
        // 255
        vec![255],
        // 255
        vec![255],
        // 0
        vec![0],
        // 0
        vec![0],
        // 0
        vec![0],
        // 0
        vec![0],
        // 255
        vec![255],
        // 255
        vec![255],
        // 255
        vec![255],
        // 255
        vec![255],
        // 255
        vec![255],
        // 255
        vec![255],
        // 255
        vec![255],
        // 255
        vec![255],
        // 255
        vec![255],
        // 255
        vec![255],
        // 255
        vec![255],
        // 255
        vec![255],
        // 255
        vec![255],
        // 255
        vec![255],
        // 255
        vec![255],
        // 255
        vec![255],
        // 255
        vec![255],
        // 255
        vec![255],
        // 255
        vec![255],
        // 255
        vec![255],
        // 255
        vec![255],
        // 255
        vec![255],
        // 255
        vec![255],
        // 255
        vec![255],
        // 255
        vec![255],
        // 255
        vec![255],
        // 255
        vec![255],
        // 255
        vec![255],
        // 255
        vec![255],
        // 255
        vec![255],
        // 255
        vec![255],
        // 255
        vec![255],
        // 255
        vec![255],
        // 255
        vec![255],
        // 255
        vec![255],
        // 255
        vec![255],
        // 255
        vec![255],
        // 255
        vec![255],
        // 255
        vec![255],
        // 255
        vec![255],
        // 255
        vec![255],
        // 255
        vec![255],
        // 255
        vec![255],
        // 255
        vec![255],
        // 255
        vec![255],
        // 255
        vec![255],
        // 255
        vec![255],
        // 255
        vec![255],
        // 255
        vec![255],
        // 255
        vec![255],
        // 255
        vec![255],
        // 255
        vec![255],
        // 255
        vec![255],
        // 255
        vec![255],
        // 255
        vec![255],
        // 255
        vec![255],
        // 255
        vec![255],
        // 255
        vec![255],
        // 255
        vec![255],
        // 255
        vec![255],
        // 255
        vec![255],
        // 255
        vec![255],
        // 255
        vec![255],
        // 255
        vec![255],
        // 255
        vec![255],
        // 255
        vec![255],
        // 255
        vec![255],
        // 255
        vec![255],
        // 255
        vec![255],
        // 255
        vec![255],
        // 255
        vec![255],
        // 255
        vec![255],
        // 255
        vec![255],
        // 255
        vec![255],
        // 255
        vec![255],
        // 255
        vec![255],
        // 255
        vec![255],
        // 255
        vec![255],
        // 255
        vec![255],
        // 255
        vec![255],
        // 255
        vec![255],
        // 255
        vec![255],
        // 255
        vec![255],
        // 255
        vec![255],
        // 255
        vec![255],
        // 255
        vec![255],
        // 255
        vec![255],
        // 255
        vec![255],
        // 255
        vec![255],
        // 255
        vec![255],
        // 255
        vec![255],
        // 255
        vec![255],
        // 255
        vec![255],
        // 255
        vec![255],
        // 255
        vec![255],
        // 255
        vec![255],
        // 255
        vec![255],
        // 255
        vec![255],
        // 255
        vec![255],
        // 255
        vec![255],
        // 255
        vec![255],
        // 255
        vec![255],
        // 255
        vec![255],
        // 255
        vec![255],
        // 255
        vec![255],
        // 255
        vec![255],
        // 255
        vec![255],
        // 255
        vec![255],
        // 255
        vec![255],
        // 255
        vec![255],
        // 255
        vec![255],
        // 255
        vec![255],
        // 255
        vec![255],
        // 255
        vec![255],
        // 255
        vec![255],
        // 255
        vec![255],
        // 255
        vec![255],
        // 255
        vec![255],
        // 255
        vec![255],
        // 255
        vec![255],
        // 255
        vec![255],
        // 255
        vec![255],
        // 255
        vec![255],
        // 255
        vec![255],
        // 255
        vec![255],
        // 255
        vec![255],
        // 255
        vec![255],
        // 255
        vec![255],
        // 255
        vec![255],
        // 255
        vec![255],
        // 255
        vec![255],
        // 255
        vec![255],
        // 255
        vec![255],
        // 255
        vec![255],
        // 255
        vec![255],
        // 255
        vec![255],
        // 255
        vec![255],
        // 255
        vec![255],
        // 255
        vec![255],
        // 255
        vec![255],
        // 255
        vec![255],
        // 255
        vec![255],
        // 255
        vec![255],
        // 255
        vec![255],
        // 255
        vec![255],
        // 255
        vec![255],
        // 255
        vec![255],
        // 255
        vec![255],
        // 255
        vec![255],
        // 255
        vec![255],
        // 255
        vec![255],
        // 255
        vec![255],
        // 255
        vec![255],
        // 255
        vec![255],
        // 255
        vec![255],
        // 255
        vec![255],
        // 255
        vec![255],
        // 255
        vec![255],
        // 255
        vec![255],
        // 255
        vec![255],
        // 255
        vec![255],
        // 255
        vec![255],
        // 255
        vec![255],
        // 255
        vec![255],
        // 255
        vec![255],
        // 63
        vec![63],
        // 63
        vec![63],
        // 63
        vec![63],
        // 4294967295
        vec![255, 255, 255, 255],
        // 1
        vec![1],
    ];
    kani::concrete_playback_run(concrete_vals, c18_q_vba_modules_1);
}

/// Test generated for harness `vba::k_c18_vba::c18_q_vba_modules_1` 
///
/// Check for `assertion`: "This is a placeholder message; Kani doesn't support message formatted at runtime"
///
/// # Warning
///
/// Concrete playback tests combined with stubs or contracts is highly
/// experimental, and subject to change.
///
/// The original harness has stubs which are not applied to this test.
/// This may cause a mismatch of non-deterministic values if the stub
/// creates any non-deterministic value.
/// The execution path may also differ, which can be used to refine the stub
/// logic.

#[test]
fn kani_concrete_playback_c18_q_vba_modules_1_7959266769270724721() {
    let concrete_vals: Vec<Vec<u8>> = vec![
        // 0
        vec![0],
        // 0
        vec![0],
        // 0
        vec![0],
        // 0
        vec![0],
        // 0
        vec![0],
        // 0
        vec![0],
        // 0
        vec![0],
        // 0
        vec![0],
        // 0
        vec![0],
        // 0
        vec![0],
        // 0
        vec![0],
        // 0
        vec![0],
        // 0
        vec![0],
        // 0
        vec![0],
        // 0
        vec![0],
        // 0
        vec![0],
        // 0
        vec![0],
        // 0
        vec![0],
        // 0
        vec![0],
        // 0
        vec![0],
        // 0
        vec![0],
        // 0
        vec![0],
        // 0
        vec![0],
        // 0
        vec![0],
        // 0
        vec![0],
        // 0
        vec![0],
        // 0
        vec![0],
        // 0
        vec![0],
        // 0
        vec![0],
        // 0
        vec![0],
        // 0
        vec![0],
        // 0
        vec![0],
        // 0
        vec![0],
        // 0
        vec![0],
        // 0
        vec![0],
        // 0
        vec![0],
        // 0
        vec![0],
        // 0
        vec![0],
        // 0
        vec![0],
        // 0
        vec![0],
        // 0
        vec![0],
        // 0
        vec![0],
        // 0
        vec![0],
        // 0
        vec![0],
        // 0
        vec![0],
        // 0
        vec![0],
        // 0
        vec![0],
        // 0
        vec![0],
        // 0
        vec![0],
        // 0
        vec![0],
        // 0
        vec![0],
        // 0
        vec![0],
        // 0
        vec![0],
        // 0
        vec![0],
        // 0
        vec![0],
        // 0
        vec![0],
        // 0
        vec![0],
        // 0
        vec![0],
        // 128
        vec![128],
        // 0
        vec![0],
        // 0
        vec![0],
        // 0
        vec![0],
        // 0
        vec![0],
        // 0
        vec![0],
        // 0
        vec![0],
        // 0
        vec![0],
        // 0
        vec![0],
        // 0
        vec![0],
        // 0
        vec![0],
        // 0
        vec![0],
        // 0
        vec![0],
        // 0
        vec![0],
        // 0
        vec![0],
        // 0
        vec![0],
        // 0
        vec![0],
        // 0
        vec![0],
        // 0
        vec![0],
        // 0
        vec![0],
        // 0
        vec![0],
        // 0
        vec![0],
        // 0
        vec![0],
        // 0
        vec![0],
        // 0
        vec![0],
        // 0
        vec![0],
        // 0
        vec![0],
        // 0
        vec![0],
        // 0
        vec![0],
        // 0
        vec![0],
        // 0
        vec![0],
        // 0
        vec![0],
        // 0
        vec![0],
        // 0
        vec![0],
        // 0
        vec![0],
        // 0
        vec![0],
        // 0
        vec![0],
        // 0
        vec![0],
        // 0
        vec![0],
        // 0
        vec![0],
        // 0
        vec![0],
        // 0
        vec![0],
        // 0
        vec![0],
        // 0
        vec![0],
        // 0
        vec![0],
        // 0
        vec![0],
        // 0
        vec![0],
        // 0
        vec![0],
        // 0
        vec![0],
        // 0
        vec![0],
        // 0
        vec![0],
        // 0
        vec![0],
        // 0
        vec![0],
        // 0
        vec![0],
        // 0
        vec![0],
        // 0
        vec![0],
        // 0
        vec![0],
        // 0
        vec![0],
        // 0
        vec![0],
        // 0
        vec![0],
        // 0
        vec![0],
        // 0
        vec![0],
        // 0
        vec![0],
        // 0
        vec![0],
        // 0
        vec![0],
        // 0
        vec![0],
        // 0
        vec![0],
        // 0
        vec![0],
        // 0
        vec![0],
        // 0
        vec![0],
        // 0
        vec![0],
        // 0
        vec![0],
        // 0
        vec![0],
        // 0
        vec![0],
        // 0
        vec![0],
        // 0
        vec![0],
        // 0
        vec![0],
        // 0
        vec![0],
        // 0
        vec![0],
        // 0
        vec![0],
        // 0
        vec![0],
        // 0
        vec![0],
        // 0
        vec![0],
        // 0
        vec![0],
        // 0
        vec![0],
        // 0
        vec![0],
        // 0
        vec![0],
        // 0
        vec![0],
        // 0
        vec![0],
        // 0
        vec![0],
        // 0
        vec![0],
        // 0
        vec![0],
        // 0
        vec![0],
        // 0
        vec![0],
        // 0
        vec![0],
        // 0
        vec![0],
        // 0
        vec![0],
        // 0
        vec![0],
        // 0
        vec![0],
        // 0
        vec![0],
        // 0
        vec![0],
        // 0
        vec![0],
        // 0
        vec![0],
        // 0
        vec![0],
        // 0
        vec![0],
        // 0
        vec![0],
        // 0
        vec![0],
        // 0
        vec![0],
        // 0
        vec![0],
        // 0
        vec![0],
        // 0
        vec![0],
        // 0
        vec![0],
        // 0
        vec![0],
        // 0
        vec![0],
        // 0
        vec![0],
        // 0
        vec![0],
        // 0
        vec![0],
        // 0
        vec![0],
        // 0
        vec![0],
        // 0
        vec![0],
        // 0
        vec![0],
        // 0
        vec![0],
        // 0
        vec![0],
        // 0
        vec![0],
        // 0
        vec![0],
        // 0
        vec![0],
        // 0
        vec![0],
        // 0
        vec![0],
        // 0
        vec![0],
        // 0
        vec![0],
        // 0
        vec![0],
        // 0
        vec![0],
        // 0
        vec![0],
        // 0
        vec![0],
        // 0
        vec![0],
        // 0
        vec![0],
        // 0
        vec![0],
        // 0
        vec![0],
        // 0
        vec![0],
        // 0
        vec![0],
        // 0
        vec![0],
        // 0
        vec![0],
        // 0
        vec![0],
        // 0
        vec![0],
        // 0
        vec![0],
        // 0
        vec![0],
        // 0
        vec![0],
        // 0
        vec![0],
        // 0
        vec![0],
        // 0
        vec![0],
        // 0
        vec![0],
        // 0
        vec![0],
        // 0
        vec![0],
        // 0
        vec![0],
        // 0
        vec![0],
        // 0
        vec![0],
        // 0
        vec![0],
        // 0
        vec![0],
        // 0
        vec![0],
        // 0
        vec![0],
        // 0
        vec![0],
        // 0
        vec![0],
        // 0
        vec![0],
        // 0
        vec![0],
        // 0
        vec![0],
        // 0
        vec![0],
        // 64
        vec![64],
        // 64
        vec![64],
        // 64
        vec![64],
        // 0
        vec![0, 0, 0, 0],
        // 0
        vec![0],
    ];
    kani::concrete_playback_run(concrete_vals, c18_q_vba_modules_1);
}

/// Test generated for harness `vba::k_c18_vba::c18_q_vba_modules_1` 
///
/// Check for `assertion`: ""well-formed PROJECTMODULES rejected""
///
/// # Warning
///
/// Concrete playback tests combined with stubs or contracts is highly
/// experimental, and subject to change.
///
/// The original harness has stubs which are not applied to this test.
/// This may cause a mismatch of non-deterministic values if the stub
/// creates any non-deterministic value.
/// The execution path may also differ, which can be used to refine the stub
/// logic.

#[test]
fn kani_concrete_playback_c18_q_vba_modules_1_12538610061009612708() {
    let concrete_vals: Vec<Vec<u8>> = vec![
        // 0
        vec![0],
        // 0
        vec![0],
        // 0
        vec![0],
        // 0
        vec![0],
        // 255
        vec![255],
        // 255
        vec![255],
        // 0
        vec![0],
        // 0
        vec![0],
        // 0
        vec![0],
        // 0
        vec![0],
        // 0
        vec![0],
        // 0
        vec![0],
        // 0
        vec![0],
        // 0
        vec![0],
        // 255
        vec![255],
        // 255
        vec![255],
        // 255
        vec![255],
        // 255
        vec![255],
        // 255
        vec![255],
        // 255
        vec![255],
        // 255
        vec![255],
        // 255
        vec![255],
        // 255
        vec![255],
        // 255
        vec![255],
        // 255
        vec![255],
        // 255
        vec![255],
        // 255
        vec![255],
        // 255
        vec![255],
        // 255
        vec![255],
        // 255
        vec![255],
        // 255
        vec![255],
        // 255
        vec![255],
        // 255
        vec![255],
        // 255
        vec![255],
        // 255
        vec![255],
        // 255
        vec![255],
        // 255
        vec![255],
        // 255
        vec![255],
        // 255
        vec![255],
        // 255
        vec![255],
        // 255
        vec![255],
        // 255
        vec![255],
        // 255
        vec![255],
        // 255
        vec![255],
        // 255
        vec![255],
        // 255
        vec![255],
        // 255
        vec![255],
        // 255
        vec![255],
        // 255
        vec![255],
        // 255
        vec![255],
        // 255
        vec![255],
        // 255
        vec![255],
        // 255
        vec![255],
        // 255
        vec![255],
        // 255
        vec![255],
        // 32
        vec![32],
        // 0
        vec![0],
        // 0
        vec![0],
        // 0
        vec![0],
        // 255
        vec![255],
        // 255
        vec![255],
        // 255
        vec![255],
        // 255
        vec![255],
        // 255
        vec![255],
        // 255
        vec![255],
        // 0
        vec![0],
        // 0
        vec![0],
        // 0
        vec![0],
        // 0
        vec![0],
        // 0
        vec![0],
        // 0
        vec![0],
        // 0
        vec![0],
        // 0
        vec![0],
        // 255
        vec![255],
        // 255
        vec![255],
        // 0
        vec![0],
        // 0
        vec![0],
        // 0
        vec![0],
        // 0
        vec![0],
        // 0
        vec![0],
        // 0
        vec![0],
        // 255
        vec![255],
        // 255
        vec![255],
        // 0
        vec![0],
        // 0
        vec![0],
        // 0
        vec![0],
        // 0
        vec![0],
        // 255
        vec![255],
        // 255
        vec![255],
        // 0
        vec![0],
        // 0
        vec![0],
        // 255
        vec![255],
        // 255
        vec![255],
        // 0
        vec![0],
        // 0
        vec![0],
        // 0
        vec![0],
        // 0
        vec![0],
        // 0
        vec![0],
        // 0
        vec![0],
        // 0
        vec![0],
        // 0
        vec![0],
        // 35
        vec![35],
        // 0
        vec![0],
        // 0
        vec![0],
        // 0
        vec![0],
        // 0
        vec![0],
        // 0
        vec![0],
        // 0
        vec![0],
        // 0
        vec![0],
        // 33
        vec![33],
        // 0
        vec![0],
        // 0
        vec![0],
        // 0
        vec![0],
        // 0
        vec![0],
        // 0
        vec![0],
        // 0
        vec![0],
        // 0
        vec![0],
        // 255
        vec![255],
        // 255
        vec![255],
        // 255
        vec![255],
        // 255
        vec![255],
        // 255
        vec![255],
        // 255
        vec![255],
        // 255
        vec![255],
        // 255
        vec![255],
        // 255
        vec![255],
        // 255
        vec![255],
        // 255
        vec![255],
        // 255
        vec![255],
        // 255
        vec![255],
        // 255
        vec![255],
        // 255
        vec![255],
        // 255
        vec![255],
        // 255
        vec![255],
        // 255
        vec![255],
        // 255
        vec![255],
        // 255
        vec![255],
        // 255
        vec![255],
        // 255
        vec![255],
        // 255
        vec![255],
        // 255
        vec![255],
        // 255
        vec![255],
        // 255
        vec![255],
        // 255
        vec![255],
        // 255
        vec![255],
        // 255
        vec![255],
        // 255
        vec![255],
        // 255
        vec![255],
        // 255
        vec![255],
        // 255
        vec![255],
        // 255
        vec![255],
        // 255
        vec![255],
        // 255
        vec![255],
        // 255
        vec![255],
        // 255
        vec![255],
        // 255
        vec![255],
        // 255
        vec![255],
        // 255
        vec![255],
        // 255
        vec![255],
        // 255
        vec![255],
        // 255
        vec![255],
        // 255
        vec![255],
        // 255
        vec![255],
        // 255
        vec![255],
        // 255
        vec![255],
        // 255
        vec![255],
        // 255
        vec![255],
        // 255
        vec![255],
        // 255
        vec![255],
        // 255
        vec![255],
        // 255
        vec![255],
        // 255
        vec![255],
        // 255
        vec![255],
        // 255
        vec![255],
        // 255
        vec![255],
        // 255
        vec![255],
        // 255
        vec![255],
        // 255
        vec![255],
        // 255
        vec![255],
        // 255
        vec![255],
        // 255
        vec![255],
        // 255
        vec![255],
        // 255
        vec![255],
        // 255
        vec![255],
        // 255
        vec![255],
        // 255
        vec![255],
        // 255
        vec![255],
        // 255
        vec![255],
        // 255
        vec![255],
        // 255
        vec![255],
        // 255
        vec![255],
        // 255
        vec![255],
        // 255
        vec![255],
        // 255
        vec![255],
        // 255
        vec![255],
        // 255
        vec![255],
        // 255
        vec![255],
        // 255
        vec![255],
        // 255
        vec![255],
        // 255
        vec![255],
        // 255
        vec![255],
        // 255
        vec![255],
        // 255
        vec![255],
        // 255
        vec![255],
        // 255
        vec![255],
        // 255
        vec![255],
        // 255
        vec![255],
        // 255
        vec![255],
        // 255
        vec![255],
        // 255
        vec![255],
        // 255
        vec![255],
        // 255
        vec![255],
        // 255
        vec![255],
        // 255
        vec![255],
        // 255
        vec![255],
        // 255
        vec![255],
        // 255
        vec![255],
        // 255
        vec![255],
        // 255
        vec![255],
        // 255
        vec![255],
        // 255
        vec![255],
        // 255
        vec![255],
        // 255
        vec![255],
        // 255
        vec![255],
        // 126
        vec![126],
        // 126
        vec![126],
        // 126
        vec![126],
        // 4294967295
        vec![255, 255, 255, 255],
        // 0
        vec![0],
    ];
    kani::concrete_playback_run(concrete_vals, c18_q_vba_modules_1);
}

/// Test generated for harness `vba::k_c18_vba::c18_q_vba_modules_1` 
///
/// Check for `assertion`: ""module source offset as recorded (all 32 bits)""
///
/// # Warning
///
/// Concrete playback tests combined with stubs or contracts is highly
/// experimental, and subject to change.
///
/// The original harness has stubs which are not applied to this test.
/// This may cause a mismatch of non-deterministic values if the stub
/// creates any non-deterministic value.
/// The execution path may also differ, which can be used to refine the stub
/// logic.

#[test]
fn kani_concrete_playback_c18_q_vba_modules_1_5496199995920411033() {
    let concrete_vals: Vec<Vec<u8>> = vec![
        // 255
        vec![255],
        // 255
        vec![255],
        // 255
        vec![255],
        // 255
        vec![255],
        // 255
        vec![255],
        // 255
        vec![255],
        // 255
        vec![255],
        // 255
        vec![255],
        // 255
        vec![255],
        // 255
        vec![255],
        // 255
        vec![255],
        // 255
        vec![255],
        // 255
        vec![255],
        // 255
        vec![255],
        // 255
        vec![255],
        // 255
        vec![255],
        // 255
        vec![255],
        // 255
        vec![255],
        // 255
        vec![255],
        // 255
        vec![255],
        // 255
        vec![255],
        // 255
        vec![255],
        // 255
        vec![255],
        // 255
        vec![255],
        // 255
        vec![255],
        // 255
        vec![255],
        // 255
        vec![255],
        // 255
        vec![255],
        // 255
        vec![255],
        // 255
        vec![255],
        // 255
        vec![255],
        // 255
        vec![255],
        // 255
        vec![255],
        // 255
        vec![255],
        // 255
        vec![255],
        // 255
        vec![255],
        // 255
        vec![255],
        // 255
        vec![255],
        // 255
        vec![255],
        // 255
        vec![255],
        // 255
        vec![255],
        // 255
        vec![255],
        // 255
        vec![255],
        // 255
        vec![255],
        // 255
        vec![255],
        // 255
        vec![255],
        // 255
        vec![255],
        // 255
        vec![255],
        // 255
        vec![255],
        // 255
        vec![255],
        // 255
        vec![255],
        // 255
        vec![255],
        // 255
        vec![255],
        // 255
        vec![255],
        // 255
        vec![255],
        // 4
        vec![4],
        // 0
        vec![0],
        // 0
        vec![0],
        // 0
        vec![0],
        // 255
        vec![255],
        // 255
        vec![255],
        // 255
        vec![255],
        // 255
        vec![255],
        // 255
        vec![255],
        // 255
        vec![255],
        // 30
        vec![30],
        // 0
        vec![0],
        // 0
        vec![0],
        // 30
        vec![30],
        // 0
        vec![0],
        // 255
        vec![255],
        // 255
        vec![255],
        // 255
        vec![255],
        // 255
        vec![255],
        // 255
        vec![255],
        // 44
        vec![44],
        // 0
        vec![0],
        // 0
        vec![0],
        // 44
        vec![44],
        // 0
        vec![0],
        // 255
        vec![255],
        // 255
        vec![255],
        // 255
        vec![255],
        // 255
        vec![255],
        // 127
        vec![127],
        // 34
        vec![34],
        // 0
        vec![0],
        // 255
        vec![255],
        // 255
        vec![255],
        // 43
        vec![43],
        // 43
        vec![43],
        // 0
        vec![0],
        // 0
        vec![0],
        // 255
        vec![255],
        // 255
        vec![255],
        // 255
        vec![255],
        // 255
        vec![255],
        // 43
        vec![43],
        // 0
        vec![0],
        // 255
        vec![255],
        // 255
        vec![255],
        // 255
        vec![255],
        // 255
        vec![255],
        // 255
        vec![255],
        // 255
        vec![255],
        // 255
        vec![255],
        // 255
        vec![255],
        // 255
        vec![255],
        // 255
        vec![255],
        // 255
        vec![255],
        // 255
        vec![255],
        // 255
        vec![255],
        // 255
        vec![255],
        // 255
        vec![255],
        // 255
        vec![255],
        // 255
        vec![255],
        // 255
        vec![255],
        // 255
        vec![255],
        // 255
        vec![255],
        // 255
        vec![255],
        // 255
        vec![255],
        // 255
        vec![255],
        // 255
        vec![255],
        // 255
        vec![255],
        // 255
        vec![255],
        // 255
        vec![255],
        // 255
        vec![255],
        // 255
        vec![255],
        // 255
        vec![255],
        // 255
        vec![255],
        // 255
        vec![255],
        // 255
        vec![255],
        // 255
        vec![255],
        // 255
        vec![255],
        // 255
        vec![255],
        // 255
        vec![255],
        // 255
        vec![255],
        // 255
        vec![255],
        // 255
        vec![255],
        // 255
        vec![255],
        // 255
        vec![255],
        // 255
        vec![255],
        // 255
        vec![255],
        // 255
        vec![255],
        // 255
        vec![255],
        // 255
        vec![255],
        // 255
        vec![255],
        // 255
        vec![255],
        // 255
        vec![255],
        // 255
        vec![255],
        // 255
        vec![255],
        // 255
        vec![255],
        // 255
        vec![255],
        // 255
        vec![255],
        // 255
        vec![255],
        // 255
        vec![255],
        // 255
        vec![255],
        // 255
        vec![255],
        // 255
        vec![255],
        // 255
        vec![255],
        // 255
        vec![255],
        // 255
        vec![255],
        // 255
        vec![255],
        // 255
        vec![255],
        // 255
        vec![255],
        // 255
        vec![255],
        // 255
        vec![255],
        // 255
        vec![255],
        // 255
        vec![255],
        // 255
        vec![255],
        // 255
        vec![255],
        // 255
        vec![255],
        // 255
        vec![255],
        // 255
        vec![255],
        // 255
        vec![255],
        // 255
        vec![255],
        // 255
        vec![255],
        // 255
        vec![255],
        // 255
        vec![255],
        // 255
        vec![255],
        // 255
        vec![255],
        // 255
        vec![255],
        // 255
        vec![255],
        // 255
        vec![255],
        // 255
        vec![255],
        // 255
        vec![255],
        // 255
        vec![255],
        // 255
        vec![255],
        // 255
        vec![255],
        // 255
        vec![255],
        // 255
        vec![255],
        // 255
        vec![255],
        // 255
        vec![255],
        // 255
        vec![255],
        // 255
        vec![255],
        // 255
        vec![255],
        // 255
        vec![255],
        // 255
        vec![255],
        // 255
        vec![255],
        // 255
        vec![255],
        // 255
        vec![255],
        // 255
        vec![255],
        // 255
        vec![255],
        // 255
        vec![255],
        // 255
        vec![255],
        // 255
        vec![255],
        // 255
        vec![255],
        // 255
        vec![255],
        // 255
        vec![255],
        // 255
        vec![255],
        // 255
        vec![255],
        // 255
        vec![255],
        // 255
        vec![255],
        // 255
        vec![255],
        // 255
        vec![255],
        // 255
        vec![255],
        // 255
        vec![255],
        // 255
        vec![255],
        // 255
        vec![255],
        // 255
        vec![255],
        // 255
        vec![255],
        // 255
        vec![255],
        // 255
        vec![255],
        // 255
        vec![255],
        // 47
        vec![47],
        // 39
        vec![39],
        // 47
        vec![47],
        // 131071
        vec![255, 255, 1, 0],
        // 1
        vec![1],
    ];
    kani::concrete_playback_run(concrete_vals, c18_q_vba_modules_1);
}

/// Test generated for harness `vba::k_c18_vba::c18_q_vba_modules_1` 
///
/// Check for `cover`: "end"
///
/// # Warning
///
/// Concrete playback tests combined with stubs or contracts is highly
/// experimental, and subject to change.
///
/// The original harness has stubs which are not applied to this test.
/// This may cause a mismatch of non-deterministic values if the stub
/// creates any non-deterministic value.
/// The execution path may also differ, which can be used to refine the stub
/// logic.

#[test]
fn kani_concrete_playback_c18_q_vba_modules_1_5848973499052053562() {
    let concrete_vals: Vec<Vec<u8>> = vec![
        // 255
        vec![255],
        // 255
        vec![255],
        // 255
        vec![255],
        // 255
        vec![255],
        // 255
        vec![255],
        // 255
        vec![255],
        // 255
        vec![255],
        // 255
        vec![255],
        // 255
        vec![255],
        // 255
        vec![255],
        // 255
        vec![255],
        // 255
        vec![255],
        // 255
        vec![255],
        // 255
        vec![255],
        // 255
        vec![255],
        // 255
        vec![255],
        // 255
        vec![255],
        // 255
        vec![255],
        // 255
        vec![255],
        // 255
        vec![255],
        // 255
        vec![255],
        // 255
        vec![255],
        // 255
        vec![255],
        // 255
        vec![255],
        // 255
        vec![255],
        // 255
        vec![255],
        // 255
        vec![255],
        // 255
        vec![255],
        // 255
        vec![255],
        // 255
        vec![255],
        // 255
        vec![255],
        // 255
        vec![255],
        // 255
        vec![255],
        // 255
        vec![255],
        // 255
        vec![255],
        // 255
        vec![255],
        // 255
        vec![255],
        // 255
        vec![255],
        // 255
        vec![255],
        // 255
        vec![255],
        // 255
        vec![255],
        // 255
        vec![255],
        // 255
        vec![255],
        // 255
        vec![255],
        // 255
        vec![255],
        // 255
        vec![255],
        // 255
        vec![255],
        // 255
        vec![255],
        // 255
        vec![255],
        // 255
        vec![255],
        // 255
        vec![255],
        // 255
        vec![255],
        // 255
        vec![255],
        // 255
        vec![255],
        // 255
        vec![255],
        // 4
        vec![4],
        // 0
        vec![0],
        // 0
        vec![0],
        // 0
        vec![0],
        // 255
        vec![255],
        // 255
        vec![255],
        // 255
        vec![255],
        // 255
        vec![255],
        // 255
        vec![255],
        // 255
        vec![255],
        // 30
        vec![30],
        // 0
        vec![0],
        // 0
        vec![0],
        // 30
        vec![30],
        // 0
        vec![0],
        // 255
        vec![255],
        // 255
        vec![255],
        // 255
        vec![255],
        // 255
        vec![255],
        // 255
        vec![255],
        // 44
        vec![44],
        // 0
        vec![0],
        // 0
        vec![0],
        // 44
        vec![44],
        // 0
        vec![0],
        // 255
        vec![255],
        // 255
        vec![255],
        // 255
        vec![255],
        // 255
        vec![255],
        // 127
        vec![127],
        // 34
        vec![34],
        // 0
        vec![0],
        // 255
        vec![255],
        // 255
        vec![255],
        // 43
        vec![43],
        // 43
        vec![43],
        // 0
        vec![0],
        // 0
        vec![0],
        // 255
        vec![255],
        // 255
        vec![255],
        // 255
        vec![255],
        // 255
        vec![255],
        // 43
        vec![43],
        // 0
        vec![0],
        // 255
        vec![255],
        // 255
        vec![255],
        // 255
        vec![255],
        // 255
        vec![255],
        // 255
        vec![255],
        // 255
        vec![255],
        // 255
        vec![255],
        // 255
        vec![255],
        // 255
        vec![255],
        // 255
        vec![255],
        // 255
        vec![255],
        // 255
        vec![255],
        // 255
        vec![255],
        // 255
        vec![255],
        // 255
        vec![255],
        // 255
        vec![255],
        // 255
        vec![255],
        // 255
        vec![255],
        // 255
        vec![255],
        // 255
        vec![255],
        // 255
        vec![255],
        // 255
        vec![255],
        // 255
        vec![255],
        // 255
        vec![255],
        // 255
        vec![255],
        // 255
        vec![255],
        // 255
        vec![255],
        // 255
        vec![255],
        // 255
        vec![255],
        // 255
        vec![255],
        // 255
        vec![255],
        // 255
        vec![255],
        // 255
        vec![255],
        // 255
        vec![255],
        // 255
        vec![255],
        // 255
        vec![255],
        // 255
        vec![255],
        // 255
        vec![255],
        // 255
        vec![255],
        // 255
        vec![255],
        // 255
        vec![255],
        // 255
        vec![255],
        // 255
        vec![255],
        // 255
        vec![255],
        // 255
        vec![255],
        // 255
        vec![255],
        // 255
        vec![255],
        // 255
        vec![255],
        // 255
        vec![255],
        // 255
        vec![255],
        // 255
        vec![255],
        // 255
        vec![255],
        // 255
        vec![255],
        // 255
        vec![255],
        // 255
        vec![255],
        // 255
        vec![255],
        // 255
        vec![255],
        // 255
        vec![255],
        // 255
        vec![255],
        // 255
        vec![255],
        // 255
        vec![255],
        // 255
        vec![255],
        // 255
        vec![255],
        // 255
        vec![255],
        // 255
        vec![255],
        // 255
        vec![255],
        // 255
        vec![255],
        // 255
        vec![255],
        // 255
        vec![255],
        // 255
        vec![255],
        // 255
        vec![255],
        // 255
        vec![255],
        // 255
        vec![255],
        // 255
        vec![255],
        // 255
        vec![255],
        // 255
        vec![255],
        // 255
        vec![255],
        // 255
        vec![255],
        // 255
        vec![255],
        // 255
        vec![255],
        // 255
        vec![255],
        // 255
        vec![255],
        // 255
        vec![255],
        // 255
        vec![255],
        // 255
        vec![255],
        // 255
        vec![255],
        // 255
        vec![255],
        // 255
        vec![255],
        // 255
        vec![255],
        // 255
        vec![255],
        // 255
        vec![255],
        // 255
        vec![255],
        // 255
        vec![255],
        // 255
        vec![255],
        // 255
        vec![255],
        // 255
        vec![255],
        // 255
        vec![255],
        // 255
        vec![255],
        // 255
        vec![255],
        // 255
        vec![255],
        // 255
        vec![255],
        // 255
        vec![255],
        // 255
        vec![255],
        // 255
        vec![255],
        // 255
        vec![255],
        // 255
        vec![255],
        // 255
        vec![255],
        // 255
        vec![255],
        // 255
        vec![255],
        // 255
        vec![255],
        // 255
        vec![255],
        // 255
        vec![255],
        // 255
        vec![255],
        // 255
        vec![255],
        // 255
        vec![255],
        // 255
        vec![255],
        // 255
        vec![255],
        // 255
        vec![255],
        // 255
        vec![255],
        // 255
        vec![255],
        // 255
        vec![255],
        // 255
        vec![255],
        // 255
        vec![255],
        // 255
        vec![255],
        // 255
        vec![255],
        // 47
        vec![47],
        // 39
        vec![39],
        // 47
        vec![47],
        // 65535
        vec![255, 255, 0, 0],
        // 1
        vec![1],
    ];
    kani::concrete_playback_run(concrete_vals, c18_q_vba_modules_1);
}

/// Test generated for harness `vba::k_c18_vba::c18_q_vba_modules_1` 
///
/// Check for `assertion`: "This is a placeholder message; Kani doesn't support message formatted at runtime"
///
/// # Warning
///
/// Concrete playback tests combined with stubs or contracts is highly
/// experimental, and subject to change.
///
/// The original harness has stubs which are not applied to this test.
/// This may cause a mismatch of non-deterministic values if the stub
/// creates any non-deterministic value.
/// The execution path may also differ, which can be used to refine the stub
/// logic.

#[test]
fn kani_concrete_playback_c18_q_vba_modules_1_3841812149434421329() {
    let concrete_vals: Vec<Vec<u8>> = vec![
        // 0
        vec![0],
        // 0
        vec![0],
        // 0
        vec![0],
        // 0
        vec![0],
        // 255
        vec![255],
        // 255
        vec![255],
        // 0
        vec![0],
        // 0
        vec![0],
        // 0
        vec![0],
        // 0
        vec![0],
        // 0
        vec![0],
        // 0
        vec![0],
        // 0
        vec![0],
        // 0
        vec![0],
        // 255
        vec![255],
        // 255
        vec![255],
        // 255
        vec![255],
        // 255
        vec![255],
        // 255
        vec![255],
        // 255
        vec![255],
        // 255
        vec![255],
        // 255
        vec![255],
        // 255
        vec![255],
        // 255
        vec![255],
        // 255
        vec![255],
        // 255
        vec![255],
        // 255
        vec![255],
        // 255
        vec![255],
        // 255
        vec![255],
        // 255
        vec![255],
        // 255
        vec![255],
        // 255
        vec![255],
        // 255
        vec![255],
        // 255
        vec![255],
        // 255
        vec![255],
        // 255
        vec![255],
        // 255
        vec![255],
        // 255
        vec![255],
        // 255
        vec![255],
        // 255
        vec![255],
        // 255
        vec![255],
        // 255
        vec![255],
        // 255
        vec![255],
        // 255
        vec![255],
        // 255
        vec![255],
        // 255
        vec![255],
        // 255
        vec![255],
        // 255
        vec![255],
        // 255
        vec![255],
        // 255
        vec![255],
        // 255
        vec![255],
        // 255
        vec![255],
        // 255
        vec![255],
        // 255
        vec![255],
        // 255
        vec![255],
        // 32
        vec![32],
        // 0
        vec![0],
        // 0
        vec![0],
        // 0
        vec![0],
        // 255
        vec![255],
        // 255
        vec![255],
        // 255
        vec![255],
        // 255
        vec![255],
        // 255
        vec![255],
        // 255
        vec![255],
        // 0
        vec![0],
        // 0
        vec![0],
        // 0
        vec![0],
        // 0
        vec![0],
        // 0
        vec![0],
        // 0
        vec![0],
        // 0
        vec![0],
        // 0
        vec![0],
        // 255
        vec![255],
        // 255
        vec![255],
        // 0
        vec![0],
        // 0
        vec![0],
        // 0
        vec![0],
        // 0
        vec![0],
        // 0
        vec![0],
        // 0
        vec![0],
        // 255
        vec![255],
        // 255
        vec![255],
        // 0
        vec![0],
        // 0
        vec![0],
        // 0
        vec![0],
        // 0
        vec![0],
        // 255
        vec![255],
        // 255
        vec![255],
        // 0
        vec![0],
        // 0
        vec![0],
        // 30
        vec![30],
        // 0
        vec![0],
        // 0
        vec![0],
        // 0
        vec![0],
        // 0
        vec![0],
        // 0
        vec![0],
        // 0
        vec![0],
        // 0
        vec![0],
        // 0
        vec![0],
        // 0
        vec![0],
        // 35
        vec![35],
        // 0
        vec![0],
        // 0
        vec![0],
        // 0
        vec![0],
        // 0
        vec![0],
        // 0
        vec![0],
        // 0
        vec![0],
        // 0
        vec![0],
        // 33
        vec![33],
        // 0
        vec![0],
        // 0
        vec![0],
        // 0
        vec![0],
        // 0
        vec![0],
        // 0
        vec![0],
        // 0
        vec![0],
        // 0
        vec![0],
        // 255
        vec![255],
        // 255
        vec![255],
        // 255
        vec![255],
        // 255
        vec![255],
        // 255
        vec![255],
        // 255
        vec![255],
        // 255
        vec![255],
        // 255
        vec![255],
        // 255
        vec![255],
        // 255
        vec![255],
        // 255
        vec![255],
        // 255
        vec![255],
        // 255
        vec![255],
        // 255
        vec![255],
        // 255
        vec![255],
        // 255
        vec![255],
        // 255
        vec![255],
        // 255
        vec![255],
        // 255
        vec![255],
        // 255
        vec![255],
        // 255
        vec![255],
        // 255
        vec![255],
        // 255
        vec![255],
        // 255
        vec![255],
        // 255
        vec![255],
        // 255
        vec![255],
        // 255
        vec![255],
        // 255
        vec![255],
        // 255
        vec![255],
        // 255
        vec![255],
        // 255
        vec![255],
        // 255
        vec![255],
        // 255
        vec![255],
        // 255
        vec![255],
        // 255
        vec![255],
        // 255
        vec![255],
        // 255
        vec![255],
        // 255
        vec![255],
        // 255
        vec![255],
        // 255
        vec![255],
        // 255
        vec![255],
        // 255
        vec![255],
        // 255
        vec![255],
        // 255
        vec![255],
        // 255
        vec![255],
        // 255
        vec![255],
        // 255
        vec![255],
        // 255
        vec![255],
        // 255
        vec![255],
        // 255
        vec![255],
        // 255
        vec![255],
        // 255
        vec![255],
        // 255
        vec![255],
        // 255
        vec![255],
        // 255
        vec![255],
        // 255
        vec![255],
        // 255
        vec![255],
        // 255
        vec![255],
        // 255
        vec![255],
        // 255
        vec![255],
        // 255
        vec![255],
        // 255
        vec![255],
        // 255
        vec![255],
        // 255
        vec![255],
        // 255
        vec![255],
        // 255
        vec![255],
        // 255
        vec![255],
        // 255
        vec![255],
        // 255
        vec![255],
        // 255
        vec![255],
        // 255
        vec![255],
        // 255
        vec![255],
        // 255
        vec![255],
        // 255
        vec![255],
        // 255
        vec![255],
        // 255
        vec![255],
        // 255
        vec![255],
        // 255
        vec![255],
        // 255
        vec![255],
        // 255
        vec![255],
        // 255
        vec![255],
        // 255
        vec![255],
        // 255
        vec![255],
        // 255
        vec![255],
        // 255
        vec![255],
        // 255
        vec![255],
        // 255
        vec![255],
        // 255
        vec![255],
        // 255
        vec![255],
        // 255
        vec![255],
        // 255
        vec![255],
        // 255
        vec![255],
        // 255
        vec![255],
        // 255
        vec![255],
        // 255
        vec![255],
        // 255
        vec![255],
        // 255
        vec![255],
        // 255
        vec![255],
        // 255
        vec![255],
        // 255
        vec![255],
        // 255
        vec![255],
        // 255
        vec![255],
        // 255
        vec![255],
        // 255
        vec![255],
        // 255
        vec![255],
        // 255
        vec![255],
        // 255
        vec![255],
        // 126
        vec![126],
        // 126
        vec![126],
        // 126
        vec![126],
        // 4294967295
        vec![255, 255, 255, 255],
        // 0
        vec![0],
    ];
    kani::concrete_playback_run(concrete_vals, c18_q_vba_modules_1);
}
