// Counterexample(s) for harness vba::k_c18_vba::c18_q_vba_modules_2 (property C18), produced by CBMC via Kani concrete playback.
// Replay: python3 /verif/run_check.py C18 --replay /verif/replays/C18/c18_q_vba_modules_2.rs
// (appends this test to the harness module in a scratch overlay of /repo and runs `cargo kani playback`).
/// Test generated for harness `vba::k_c18_vba::c18_q_vba_modules_2` 
///
/// Check for `assertion`: "This is a placeholder message; Kani doesn't support message formatted at runtime"
///
/// # Warning
///
/// Concrete playback tests combined with stubs or contracts is highly
/// experimental, and subject to change.
///
/// The original harness has stubs which are not applied to this test.
/// This may cause a mismatch of non-deterministic values if the stub
/// creates any non-deterministic value.
/// The execution path may also differ, which can be used to refine the stub
/// logic.

#[test]
fn kani_concrete_playback_c18_q_vba_modules_2_1208616146374285841() {
    let concrete_vals: Vec<Vec<u8>> = vec![
        // 255
        vec![255],
        // 255
        vec![255],
        // 255
        vec![255],
        // 255
        vec![255],
        // 255
        vec![255],
        // 255
        vec![255],
        // 255
        vec![255],
        // 255
        vec![255],
        // 255
        vec![255],
        // 255
        vec![255],
        // 255
        vec![255],
        // 255
        vec![255],
        // 255
        vec![255],
        // 255
        vec![255],
        // 255
        vec![255],
        // 255
        vec![255],
        // 255
        vec![255],
        // 255
        vec![255],
        // 255
        vec![255],
        // 255
        vec![255],
        // 255
        vec![255],
        // 255
        vec![255],
        // 255
        vec![255],
        // 255
        vec![255],
        // 255
        vec![255],
        // 255
        vec![255],
        // 255
        vec![255],
        // 255
        vec![255],
        // 255
        vec![255],
        // 255
        vec![255],
        // 255
        vec![255],
        // 255
        vec![255],
        // 255
        vec![255],
        // 255
        vec![255],
        // 255
        vec![255],
        // 255
        vec![255],
        // 255
        vec![255],
        // 255
        vec![255],
        // 255
        vec![255],
        // 255
        vec![255],
        // 255
        vec![255],
        // 255
        vec![255],
        // 255
        vec![255],
        // 255
        vec![255],
        // 255
        vec![255],
        // 255
        vec![255],
        // 255
        vec![255],
        // 255
        vec![255],
        // 255
        vec![255],
        // 255
        vec![255],
        // 255
        vec![255],
        // 255
        vec![255],
        // 255
        vec![255],
        // 255
        vec![255],
        // 255
        vec![255],
        // 0
        vec![0],
        // 0
        vec![0],
        // 0
        vec![0],
        // 0
        vec![0],
        // 255
        vec![255],
        // 255
        vec![255],
        // 255
        vec![255],
        // 255
        vec![255],
        // 255
        vec![255],
        // 255
        vec![255],
        // 255
        vec![255],
        // 255
        vec![255],
        // 255
        vec![255],
        // 255
        vec![255],
        // 255
        vec![255],
        // 255
        vec![255],
        // 255
        vec![255],
        // 255
        vec![255],
        // 255
        vec![255],
        // 255
        vec![255],
        // 255
        vec![255],
        // 255
        vec![255],
        // 255
        vec![255],
        // 255
        vec![255],
        // 255
        vec![255],
        // 255
        vec![255],
        // 255
        vec![255],
        // 255
        vec![255],
        // 255
        vec![255],
        // 255
        vec![255],
        // 255
        vec![255],
        // 255
        vec![255],
        // 255
        vec![255],
        // 255
        vec![255],
        // 255
        vec![255],
        // 255
        vec![255],
        // 255
        vec![255],
        // 255
        vec![255],
        // 255
        vec![255],
        // 255
        vec![255],
        // 255
        vec![255],
        // 255
        vec![255],
        // 255
        vec![255],
        // 255
        vec![255],
        // 255
        vec![255],
        // 255
        vec![255],
        // 255
        vec![255],
        // 255
        vec![255],
        // 255
        vec![255],
        // 255
        vec![255],
        // 255
        vec![255],
        // 255
        vec![255],
        // 255
        vec![255],
        // 255
        vec![255],
        // 255
        vec![255],
        // 255
        vec![255],
        // 255
        vec![255],
        // 255
        vec![255],
        // 255
        vec![255],
        // 255
        vec![255],
        // 255
        vec![255],
        // 255
        vec![255],
        // 255
        vec![255],
        // 255
        vec![255],
        // 255
        vec![255],
        // 255
        vec![255],
        // 255
        vec![255],
        // 255
        vec![255],
        // 255
        vec![255],
        // 255
        vec![255],
        // 255
        vec![255],
        // 255
        vec![255],
        // 255
        vec![255],
        // 255
        vec![255],
        // 255
        vec![255],
        // 255
        vec![255],
        // 255
        vec![255],
        // 255
        vec![255],
        // 255
        vec![255],
        // 0
        vec![0],
        // 0
        vec![0],
        // 0
        vec![0],
        // 0
        vec![0],
        // 255
        vec![255],
        // 255
        vec![255],
        // 255
        vec![255],
        // 255
        vec![255],
        // 255
        vec![255],
        // 255
        vec![255],
        // 0
        vec![0],
        // 0
        vec![0],
        // 0
        vec![0],
        // 0
        vec![0],
        // 0
        vec![0],
        // 255
        vec![255],
        // 255
        vec![255],
        // 255
        vec![255],
        // 255
        vec![255],
        // 255
        vec![255],
        // 255
        vec![255],
        // 255
        vec![255],
        // 255
        vec![255],
        // 255
        vec![255],
        // 255
        vec![255],
        // 255
        vec![255],
        // 255
        vec![255],
        // 255
        vec![255],
        // 255
        vec![255],
        // 255
        vec![255],
        // 255
        vec![255],
        // 255
        vec![255],
        // 255
        vec![255],
        // 255
        vec![255],
        // 255
        vec![255],
        // 255
        vec![255],
        // 255
        vec![255],
        // 255
        vec![255],
        // 255
        vec![255],
        // 255
        vec![255],
        // 255
        vec![255],
        // 255
        vec![255],
        // 255
        vec![255],
        // 255
        vec![255],
        // 255
        vec![255],
        // 255
        vec![255],
        // 255
        vec![255],
        // 255
        vec![255],
        // 255
        vec![255],
        // 255
        vec![255],
        // 255
        vec![255],
        // 255
        vec![255],
        // 255
        vec![255],
        // 255
        vec![255],
        // 255
        vec![255],
        // 255
        vec![255],
        // 255
        vec![255],
        // 255
        vec![255],
        // 255
        vec![255],
        // 255
        vec![255],
        // 255
        vec![255],
        // 255
        vec![255],
        // 255
        vec![255],
        // 255
        vec![255],
        // 255
        vec![255],
        // 255
        vec![255],
        // 255
        vec![255],
        // 255
        vec![255],
        // 255
        vec![255],
        // 255
        vec![255],
        // 255
        vec![255],
        // 255
        vec![255],
        // 255
        vec![255],
        // 255
        vec![255],
        // 255
        vec![255],
        // 255
        vec![255],
        // 255
        vec![255],
        // 255
        vec![255],
        // 255
        vec![255],
        // 255
        vec![255],
        // 255
        vec![255],
        // 255
        vec![255],
        // 255
        vec![255],
        // 255
        vec![255],
        // 255
        vec![255],
        // 255
        vec![255],
        // 255
        vec![255],
        // 255
        vec![255],
        // 255
        vec![255],
        // 255
        vec![255],
        // 63
        vec![63],
        // 63
        vec![63],
        // 63
        vec![63],
        // 4294967295
        vec![255, 255, 255, 255],
        // 1
        vec![1],
        // 63
        vec![63],
        // 63
        vec![63],
        // 63
        vec![63],
        // 4278190080
        vec![0, 0, 0, 255],
        // 1
        vec![1],
    ];
    kani::concrete_playback_run(concrete_vals, c18_q_vba_modules_2);
}

/// Test generated for harness `vba::k_c18_vba::c18_q_vba_modules_2` 
///
/// Check for `assertion`: ""well-formed PROJECTMODULES rejected""
///
/// # Warning
///
/// Concrete playback tests combined with stubs or contracts is highly
/// experimental, and subject to change.
///
/// The original harness has stubs which are not applied to this test.
/// This may cause a mismatch of non-deterministic values if the stub
/// creates any non-deterministic value.
/// The execution path may also differ, which can be used to refine the stub
/// logic.

#[test]
fn kani_concrete_playback_c18_q_vba_modules_2_16354759409625430451() {
    let concrete_vals: Vec<Vec<u8>> = vec![
        // 30
        vec![30],
        // 30
        vec![30],
        // 0
        vec![0],
        // 0
        vec![0],
        // 255
        vec![255],
        // 255
        vec![255],
        // 0
        vec![0],
        // 0
        vec![0],
        // 0
        vec![0],
        // 0
        vec![0],
        // 0
        vec![0],
        // 0
        vec![0],
        // 0
        vec![0],
        // 0
        vec![0],
        // 255
        vec![255],
        // 255
        vec![255],
        // 255
        vec![255],
        // 255
        vec![255],
        // 255
        vec![255],
        // 255
        vec![255],
        // 255
        vec![255],
        // 255
        vec![255],
        // 255
        vec![255],
        // 255
        vec![255],
        // 255
        vec![255],
        // 255
        vec![255],
        // 255
        vec![255],
        // 255
        vec![255],
        // 255
        vec![255],
        // 255
        vec![255],
        // 255
        vec![255],
        // 255
        vec![255],
        // 255
        vec![255],
        // 255
        vec![255],
        // 255
        vec![255],
        // 255
        vec![255],
        // 255
        vec![255],
        // 255
        vec![255],
        // 255
        vec![255],
        // 255
        vec![255],
        // 255
        vec![255],
        // 255
        vec![255],
        // 255
        vec![255],
        // 255
        vec![255],
        // 255
        vec![255],
        // 255
        vec![255],
        // 255
        vec![255],
        // 255
        vec![255],
        // 255
        vec![255],
        // 255
        vec![255],
        // 255
        vec![255],
        // 255
        vec![255],
        // 255
        vec![255],
        // 255
        vec![255],
        // 255
        vec![255],
        // 11
        vec![11],
        // 0
        vec![0],
        // 0
        vec![0],
        // 0
        vec![0],
        // 255
        vec![255],
        // 255
        vec![255],
        // 255
        vec![255],
        // 255
        vec![255],
        // 255
        vec![255],
        // 255
        vec![255],
        // 0
        vec![0],
        // 0
        vec![0],
        // 0
        vec![0],
        // 0
        vec![0],
        // 0
        vec![0],
        // 0
        vec![0],
        // 1
        vec![1],
        // 0
        vec![0],
        // 255
        vec![255],
        // 255
        vec![255],
        // 0
        vec![0],
        // 0
        vec![0],
        // 0
        vec![0],
        // 0
        vec![0],
        // 0
        vec![0],
        // 0
        vec![0],
        // 255
        vec![255],
        // 255
        vec![255],
        // 0
        vec![0],
        // 0
        vec![0],
        // 0
        vec![0],
        // 0
        vec![0],
        // 255
        vec![255],
        // 255
        vec![255],
        // 0
        vec![0],
        // 0
        vec![0],
        // 0
        vec![0],
        // 0
        vec![0],
        // 255
        vec![255],
        // 255
        vec![255],
        // 255
        vec![255],
        // 255
        vec![255],
        // 255
        vec![255],
        // 255
        vec![255],
        // 255
        vec![255],
        // 255
        vec![255],
        // 255
        vec![255],
        // 255
        vec![255],
        // 255
        vec![255],
        // 255
        vec![255],
        // 255
        vec![255],
        // 255
        vec![255],
        // 255
        vec![255],
        // 255
        vec![255],
        // 255
        vec![255],
        // 255
        vec![255],
        // 255
        vec![255],
        // 255
        vec![255],
        // 255
        vec![255],
        // 255
        vec![255],
        // 255
        vec![255],
        // 255
        vec![255],
        // 255
        vec![255],
        // 255
        vec![255],
        // 255
        vec![255],
        // 255
        vec![255],
        // 255
        vec![255],
        // 255
        vec![255],
        // 255
        vec![255],
        // 255
        vec![255],
        // 255
        vec![255],
        // 255
        vec![255],
        // 255
        vec![255],
        // 255
        vec![255],
        // 255
        vec![255],
        // 255
        vec![255],
        // 255
        vec![255],
        // 255
        vec![255],
        // 255
        vec![255],
        // 0
        vec![0],
        // 0
        vec![0],
        // 40
        vec![40],
        // 0
        vec![0],
        // 255
        vec![255],
        // 255
        vec![255],
        // 255
        vec![255],
        // 255
        vec![255],
        // 255
        vec![255],
        // 255
        vec![255],
        // 192
        vec![192],
        // 0
        vec![0],
        // 0
        vec![0],
        // 0
        vec![0],
        // 0
        vec![0],
        // 0
        vec![0],
        // 0
        vec![0],
        // 0
        vec![0],
        // 255
        vec![255],
        // 255
        vec![255],
        // 14
        vec![14],
        // 0
        vec![0],
        // 0
        vec![0],
        // 0
        vec![0],
        // 0
        vec![0],
        // 0
        vec![0],
        // 255
        vec![255],
        // 255
        vec![255],
        // 0
        vec![0],
        // 0
        vec![0],
        // 0
        vec![0],
        // 0
        vec![0],
        // 255
        vec![255],
        // 255
        vec![255],
        // 0
        vec![0],
        // 0
        vec![0],
        // 0
        vec![0],
        // 0
        vec![0],
        // 0
        vec![0],
        // 0
        vec![0],
        // 2
        vec![2],
        // 126
        vec![126],
        // 0
        vec![0],
        // 0
        vec![0],
        // 0
        vec![0],
        // 0
        vec![0],
        // 25
        vec![25],
        // 255
        vec![255],
        // 0
        vec![0],
        // 0
        vec![0],
        // 0
        vec![0],
        // 0
        vec![0],
        // 40
        vec![40],
        // 0
        vec![0],
        // 0
        vec![0],
        // 0
        vec![0],
        // 0
        vec![0],
        // 0
        vec![0],
        // 40
        vec![40],
        // 0
        vec![0],
        // 0
        vec![0],
        // 0
        vec![0],
        // 0
        vec![0],
        // 0
        vec![0],
        // 40
        vec![40],
        // 0
        vec![0],
        // 2
        vec![2],
        // 0
        vec![0],
        // 0
        vec![0],
        // 0
        vec![0],
        // 40
        vec![40],
        // 0
        vec![0],
        // 0
        vec![0],
        // 0
        vec![0],
        // 0
        vec![0],
        // 0
        vec![0],
        // 40
        vec![40],
        // 0
        vec![0],
        // 0
        vec![0],
        // 0
        vec![0],
        // 0
        vec![0],
        // 0
        vec![0],
        // 40
        vec![40],
        // 0
        vec![0],
        // 255
        vec![255],
        // 255
        vec![255],
        // 255
        vec![255],
        // 255
        vec![255],
        // 255
        vec![255],
        // 255
        vec![255],
        // 126
        vec![126],
        // 126
        vec![126],
        // 126
        vec![126],
        // 4294967295
        vec![255, 255, 255, 255],
        // 0
        vec![0],
        // 33
        vec![33],
        // 33
        vec![33],
        // 33
        vec![33],
        // 4294967295
        vec![255, 255, 255, 255],
        // 0
        vec![0],
    ];
    kani::concrete_playback_run(concrete_vals, c18_q_vba_modules_2);
}

/// Test generated for harness `vba::k_c18_vba::c18_q_vba_modules_2` 
///
/// Check for `assertion`: ""module source offset as recorded (all 32 bits)""
///
/// # Warning
///
/// Concrete playback tests combined with stubs or contracts is highly
/// experimental, and subject to change.
///
/// The original harness has stubs which are not applied to this test.
/// This may cause a mismatch of non-deterministic values if the stub
/// creates any non-deterministic value.
/// The execution path may also differ, which can be used to refine the stub
/// logic.

#[test]
fn kani_concrete_playback_c18_q_vba_modules_2_9128207629150100781() {
    let concrete_vals: Vec<Vec<u8>> = vec![
        // 43
        vec![43],
        // 2
        vec![2],
        // 255
        vec![255],
        // 255
        vec![255],
        // 255
        vec![255],
        // 255
        vec![255],
        // 255
        vec![255],
        // 255
        vec![255],
        // 0
        vec![0],
        // 0
        vec![0],
        // 0
        vec![0],
        // 127
        vec![127],
        // 71
        vec![71],
        // 0
        vec![0],
        // 255
        vec![255],
        // 255
        vec![255],
        // 255
        vec![255],
        // 255
        vec![255],
        // 255
        vec![255],
        // 255
        vec![255],
        // 255
        vec![255],
        // 255
        vec![255],
        // 255
        vec![255],
        // 255
        vec![255],
        // 255
        vec![255],
        // 255
        vec![255],
        // 255
        vec![255],
        // 255
        vec![255],
        // 255
        vec![255],
        // 255
        vec![255],
        // 255
        vec![255],
        // 255
        vec![255],
        // 255
        vec![255],
        // 255
        vec![255],
        // 255
        vec![255],
        // 255
        vec![255],
        // 255
        vec![255],
        // 255
        vec![255],
        // 255
        vec![255],
        // 255
        vec![255],
        // 255
        vec![255],
        // 255
        vec![255],
        // 255
        vec![255],
        // 255
        vec![255],
        // 255
        vec![255],
        // 255
        vec![255],
        // 255
        vec![255],
        // 255
        vec![255],
        // 255
        vec![255],
        // 255
        vec![255],
        // 255
        vec![255],
        // 255
        vec![255],
        // 255
        vec![255],
        // 255
        vec![255],
        // 255
        vec![255],
        // 4
        vec![4],
        // 0
        vec![0],
        // 0
        vec![0],
        // 0
        vec![0],
        // 255
        vec![255],
        // 255
        vec![255],
        // 255
        vec![255],
        // 255
        vec![255],
        // 255
        vec![255],
        // 255
        vec![255],
        // 0
        vec![0],
        // 44
        vec![44],
        // 44
        vec![44],
        // 0
        vec![0],
        // 0
        vec![0],
        // 255
        vec![255],
        // 34
        vec![34],
        // 0
        vec![0],
        // 255
        vec![255],
        // 255
        vec![255],
        // 254
        vec![254],
        // 253
        vec![253],
        // 43
        vec![43],
        // 0
        vec![0],
        // 0
        vec![0],
        // 30
        vec![30],
        // 255
        vec![255],
        // 255
        vec![255],
        // 62
        vec![62],
        // 62
        vec![62],
        // 40
        vec![40],
        // 0
        vec![0],
        // 255
        vec![255],
        // 255
        vec![255],
        // 0
        vec![0],
        // 127
        vec![127],
        // 71
        vec![71],
        // 0
        vec![0],
        // 255
        vec![255],
        // 255
        vec![255],
        // 255
        vec![255],
        // 255
        vec![255],
        // 255
        vec![255],
        // 255
        vec![255],
        // 255
        vec![255],
        // 255
        vec![255],
        // 255
        vec![255],
        // 255
        vec![255],
        // 255
        vec![255],
        // 255
        vec![255],
        // 255
        vec![255],
        // 255
        vec![255],
        // 255
        vec![255],
        // 255
        vec![255],
        // 255
        vec![255],
        // 255
        vec![255],
        // 255
        vec![255],
        // 255
        vec![255],
        // 255
        vec![255],
        // 255
        vec![255],
        // 255
        vec![255],
        // 255
        vec![255],
        // 255
        vec![255],
        // 255
        vec![255],
        // 255
        vec![255],
        // 255
        vec![255],
        // 255
        vec![255],
        // 255
        vec![255],
        // 255
        vec![255],
        // 255
        vec![255],
        // 255
        vec![255],
        // 255
        vec![255],
        // 255
        vec![255],
        // 255
        vec![255],
        // 255
        vec![255],
        // 255
        vec![255],
        // 255
        vec![255],
        // 255
        vec![255],
        // 255
        vec![255],
        // 4
        vec![4],
        // 0
        vec![0],
        // 0
        vec![0],
        // 0
        vec![0],
        // 255
        vec![255],
        // 255
        vec![255],
        // 255
        vec![255],
        // 255
        vec![255],
        // 255
        vec![255],
        // 255
        vec![255],
        // 30
        vec![30],
        // 0
        vec![0],
        // 0
        vec![0],
        // 0
        vec![0],
        // 44
        vec![44],
        // 0
        vec![0],
        // 44
        vec![44],
        // 0
        vec![0],
        // 255
        vec![255],
        // 255
        vec![255],
        // 30
        vec![30],
        // 0
        vec![0],
        // 32
        vec![32],
        // 30
        vec![30],
        // 30
        vec![30],
        // 0
        vec![0],
        // 255
        vec![255],
        // 255
        vec![255],
        // 0
        vec![0],
        // 44
        vec![44],
        // 0
        vec![0],
        // 0
        vec![0],
        // 255
        vec![255],
        // 255
        vec![255],
        // 45
        vec![45],
        // 0
        vec![0],
        // 30
        vec![30],
        // 0
        vec![0],
        // 0
        vec![0],
        // 0
        vec![0],
        // 44
        vec![44],
        // 25
        vec![25],
        // 37
        vec![37],
        // 0
        vec![0],
        // 0
        vec![0],
        // 0
        vec![0],
        // 44
        vec![44],
        // 0
        vec![0],
        // 37
        vec![37],
        // 0
        vec![0],
        // 255
        vec![255],
        // 223
        vec![223],
        // 30
        vec![30],
        // 0
        vec![0],
        // 37
        vec![37],
        // 0
        vec![0],
        // 37
        vec![37],
        // 0
        vec![0],
        // 43
        vec![43],
        // 0
        vec![0],
        // 37
        vec![37],
        // 0
        vec![0],
        // 44
        vec![44],
        // 0
        vec![0],
        // 43
        vec![43],
        // 43
        vec![43],
        // 37
        vec![37],
        // 0
        vec![0],
        // 255
        vec![255],
        // 255
        vec![255],
        // 255
        vec![255],
        // 25
        vec![25],
        // 43
        vec![43],
        // 0
        vec![0],
        // 0
        vec![0],
        // 0
        vec![0],
        // 0
        vec![0],
        // 255
        vec![255],
        // 43
        vec![43],
        // 0
        vec![0],
        // 37
        vec![37],
        // 0
        vec![0],
        // 0
        vec![0],
        // 50
        vec![50],
        // 43
        vec![43],
        // 0
        vec![0],
        // 255
        vec![255],
        // 255
        vec![255],
        // 255
        vec![255],
        // 255
        vec![255],
        // 111
        vec![111],
        // 111
        vec![111],
        // 56
        vec![56],
        // 131069
        vec![253, 255, 1, 0],
        // 1
        vec![1],
        // 73
        vec![73],
        // 33
        vec![33],
        // 126
        vec![126],
        // 65535
        vec![255, 255, 0, 0],
        // 1
        vec![1],
    ];
    kani::concrete_playback_run(concrete_vals, c18_q_vba_modules_2);
}

/// Test generated for harness `vba::k_c18_vba::c18_q_vba_modules_2` 
///
/// Check for `cover`: "end"
///
/// # Warning
///
/// Concrete playback tests combined with stubs or contracts is highly
/// experimental, and subject to change.
///
/// The original harness has stubs which are not applied to this test.
/// This may cause a mismatch of non-deterministic values if the stub
/// creates any non-deterministic value.
/// The execution path may also differ, which can be used to refine the stub
/// logic.

#[test]
fn kani_concrete_playback_c18_q_vba_modules_2_15269946783029473879() {
    let concrete_vals: Vec<Vec<u8>> = vec![
        // 39
        vec![39],
        // 2
        vec![2],
        // 255
        vec![255],
        // 255
        vec![255],
        // 255
        vec![255],
        // 255
        vec![255],
        // 255
        vec![255],
        // 255
        vec![255],
        // 0
        vec![0],
        // 0
        vec![0],
        // 0
        vec![0],
        // 127
        vec![127],
        // 71
        vec![71],
        // 71
        vec![71],
        // 255
        vec![255],
        // 255
        vec![255],
        // 255
        vec![255],
        // 255
        vec![255],
        // 255
        vec![255],
        // 255
        vec![255],
        // 255
        vec![255],
        // 255
        vec![255],
        // 255
        vec![255],
        // 255
        vec![255],
        // 255
        vec![255],
        // 255
        vec![255],
        // 255
        vec![255],
        // 255
        vec![255],
        // 255
        vec![255],
        // 255
        vec![255],
        // 255
        vec![255],
        // 255
        vec![255],
        // 255
        vec![255],
        // 255
        vec![255],
        // 255
        vec![255],
        // 255
        vec![255],
        // 255
        vec![255],
        // 255
        vec![255],
        // 255
        vec![255],
        // 255
        vec![255],
        // 255
        vec![255],
        // 255
        vec![255],
        // 255
        vec![255],
        // 255
        vec![255],
        // 255
        vec![255],
        // 255
        vec![255],
        // 255
        vec![255],
        // 255
        vec![255],
        // 255
        vec![255],
        // 255
        vec![255],
        // 255
        vec![255],
        // 255
        vec![255],
        // 255
        vec![255],
        // 255
        vec![255],
        // 255
        vec![255],
        // 4
        vec![4],
        // 0
        vec![0],
        // 0
        vec![0],
        // 0
        vec![0],
        // 255
        vec![255],
        // 255
        vec![255],
        // 255
        vec![255],
        // 255
        vec![255],
        // 255
        vec![255],
        // 255
        vec![255],
        // 0
        vec![0],
        // 44
        vec![44],
        // 44
        vec![44],
        // 0
        vec![0],
        // 0
        vec![0],
        // 255
        vec![255],
        // 34
        vec![34],
        // 32
        vec![32],
        // 255
        vec![255],
        // 255
        vec![255],
        // 254
        vec![254],
        // 253
        vec![253],
        // 43
        vec![43],
        // 43
        vec![43],
        // 0
        vec![0],
        // 30
        vec![30],
        // 255
        vec![255],
        // 255
        vec![255],
        // 62
        vec![62],
        // 62
        vec![62],
        // 40
        vec![40],
        // 0
        vec![0],
        // 255
        vec![255],
        // 255
        vec![255],
        // 0
        vec![0],
        // 127
        vec![127],
        // 71
        vec![71],
        // 71
        vec![71],
        // 255
        vec![255],
        // 255
        vec![255],
        // 255
        vec![255],
        // 255
        vec![255],
        // 255
        vec![255],
        // 255
        vec![255],
        // 255
        vec![255],
        // 255
        vec![255],
        // 255
        vec![255],
        // 255
        vec![255],
        // 255
        vec![255],
        // 255
        vec![255],
        // 255
        vec![255],
        // 255
        vec![255],
        // 255
        vec![255],
        // 255
        vec![255],
        // 255
        vec![255],
        // 255
        vec![255],
        // 255
        vec![255],
        // 255
        vec![255],
        // 255
        vec![255],
        // 255
        vec![255],
        // 255
        vec![255],
        // 255
        vec![255],
        // 255
        vec![255],
        // 255
        vec![255],
        // 255
        vec![255],
        // 255
        vec![255],
        // 255
        vec![255],
        // 255
        vec![255],
        // 255
        vec![255],
        // 255
        vec![255],
        // 255
        vec![255],
        // 255
        vec![255],
        // 255
        vec![255],
        // 255
        vec![255],
        // 255
        vec![255],
        // 255
        vec![255],
        // 255
        vec![255],
        // 255
        vec![255],
        // 255
        vec![255],
        // 4
        vec![4],
        // 0
        vec![0],
        // 0
        vec![0],
        // 0
        vec![0],
        // 255
        vec![255],
        // 255
        vec![255],
        // 255
        vec![255],
        // 255
        vec![255],
        // 255
        vec![255],
        // 255
        vec![255],
        // 30
        vec![30],
        // 30
        vec![30],
        // 0
        vec![0],
        // 0
        vec![0],
        // 44
        vec![44],
        // 0
        vec![0],
        // 44
        vec![44],
        // 0
        vec![0],
        // 255
        vec![255],
        // 255
        vec![255],
        // 44
        vec![44],
        // 44
        vec![44],
        // 0
        vec![0],
        // 0
        vec![0],
        // 32
        vec![32],
        // 0
        vec![0],
        // 255
        vec![255],
        // 255
        vec![255],
        // 54
        vec![54],
        // 54
        vec![54],
        // 12
        vec![12],
        // 32
        vec![32],
        // 255
        vec![255],
        // 255
        vec![255],
        // 43
        vec![43],
        // 0
        vec![0],
        // 41
        vec![41],
        // 0
        vec![0],
        // 44
        vec![44],
        // 44
        vec![44],
        // 0
        vec![0],
        // 25
        vec![25],
        // 43
        vec![43],
        // 0
        vec![0],
        // 0
        vec![0],
        // 44
        vec![44],
        // 43
        vec![43],
        // 0
        vec![0],
        // 43
        vec![43],
        // 0
        vec![0],
        // 255
        vec![255],
        // 223
        vec![223],
        // 62
        vec![62],
        // 37
        vec![37],
        // 37
        vec![37],
        // 0
        vec![0],
        // 37
        vec![37],
        // 0
        vec![0],
        // 41
        vec![41],
        // 37
        vec![37],
        // 37
        vec![37],
        // 0
        vec![0],
        // 44
        vec![44],
        // 0
        vec![0],
        // 41
        vec![41],
        // 43
        vec![43],
        // 37
        vec![37],
        // 0
        vec![0],
        // 255
        vec![255],
        // 255
        vec![255],
        // 255
        vec![255],
        // 25
        vec![25],
        // 43
        vec![43],
        // 0
        vec![0],
        // 0
        vec![0],
        // 0
        vec![0],
        // 0
        vec![0],
        // 255
        vec![255],
        // 43
        vec![43],
        // 0
        vec![0],
        // 37
        vec![37],
        // 0
        vec![0],
        // 0
        vec![0],
        // 50
        vec![50],
        // 43
        vec![43],
        // 0
        vec![0],
        // 255
        vec![255],
        // 255
        vec![255],
        // 253
        vec![253],
        // 255
        vec![255],
        // 111
        vec![111],
        // 111
        vec![111],
        // 56
        vec![56],
        // 65533
        vec![253, 255, 0, 0],
        // 1
        vec![1],
        // 109
        vec![109],
        // 91
        vec![91],
        // 44
        vec![44],
        // 30
        vec![30, 0, 0, 0],
        // 0
        vec![0],
    ];
    kani::concrete_playback_run(concrete_vals, c18_q_vba_modules_2);
}

/// Test generated for harness `vba::k_c18_vba::c18_q_vba_modules_2` 
///
/// Check for `assertion`: "This is a placeholder message; Kani doesn't support message formatted at runtime"
///
/// # Warning
///
/// Concrete playback tests combined with stubs or contracts is highly
/// experimental, and subject to change.
///
/// The original harness has stubs which are not applied to this test.
/// This may cause a mismatch of non-deterministic values if the stub
/// creates any non-deterministic value.
/// The execution path may also differ, which can be used to refine the stub
/// logic.

#[test]
fn kani_concrete_playback_c18_q_vba_modules_2_7089344001893985828() {
    let concrete_vals: Vec<Vec<u8>> = vec![
        // 255
        vec![255],
        // 255
        vec![255],
        // 255
        vec![255],
        // 255
        vec![255],
        // 255
        vec![255],
        // 255
        vec![255],
        // 255
        vec![255],
        // 255
        vec![255],
        // 255
        vec![255],
        // 255
        vec![255],
        // 255
        vec![255],
        // 255
        vec![255],
        // 255
        vec![255],
        // 255
        vec![255],
        // 255
        vec![255],
        // 255
        vec![255],
        // 255
        vec![255],
        // 255
        vec![255],
        // 255
        vec![255],
        // 255
        vec![255],
        // 255
        vec![255],
        // 255
        vec![255],
        // 255
        vec![255],
        // 255
        vec![255],
        // 255
        vec![255],
        // 255
        vec![255],
        // 255
        vec![255],
        // 255
        vec![255],
        // 255
        vec![255],
        // 255
        vec![255],
        // 255
        vec![255],
        // 255
        vec![255],
        // 255
        vec![255],
        // 255
        vec![255],
        // 255
        vec![255],
        // 255
        vec![255],
        // 255
        vec![255],
        // 255
        vec![255],
        // 255
        vec![255],
        // 255
        vec![255],
        // 255
        vec![255],
        // 255
        vec![255],
        // 255
        vec![255],
        // 255
        vec![255],
        // 255
        vec![255],
        // 255
        vec![255],
        // 255
        vec![255],
        // 255
        vec![255],
        // 255
        vec![255],
        // 255
        vec![255],
        // 255
        vec![255],
        // 255
        vec![255],
        // 255
        vec![255],
        // 255
        vec![255],
        // 255
        vec![255],
        // 111
        vec![111],
        // 0
        vec![0],
        // 0
        vec![0],
        // 0
        vec![0],
        // 255
        vec![255],
        // 255
        vec![255],
        // 255
        vec![255],
        // 255
        vec![255],
        // 255
        vec![255],
        // 255
        vec![255],
        // 255
        vec![255],
        // 255
        vec![255],
        // 255
        vec![255],
        // 255
        vec![255],
        // 255
        vec![255],
        // 255
        vec![255],
        // 255
        vec![255],
        // 255
        vec![255],
        // 255
        vec![255],
        // 255
        vec![255],
        // 255
        vec![255],
        // 255
        vec![255],
        // 255
        vec![255],
        // 255
        vec![255],
        // 255
        vec![255],
        // 255
        vec![255],
        // 255
        vec![255],
        // 255
        vec![255],
        // 255
        vec![255],
        // 255
        vec![255],
        // 255
        vec![255],
        // 255
        vec![255],
        // 255
        vec![255],
        // 255
        vec![255],
        // 255
        vec![255],
        // 255
        vec![255],
        // 255
        vec![255],
        // 255
        vec![255],
        // 255
        vec![255],
        // 255
        vec![255],
        // 255
        vec![255],
        // 255
        vec![255],
        // 255
        vec![255],
        // 255
        vec![255],
        // 255
        vec![255],
        // 255
        vec![255],
        // 255
        vec![255],
        // 255
        vec![255],
        // 255
        vec![255],
        // 255
        vec![255],
        // 255
        vec![255],
        // 255
        vec![255],
        // 255
        vec![255],
        // 255
        vec![255],
        // 255
        vec![255],
        // 255
        vec![255],
        // 255
        vec![255],
        // 255
        vec![255],
        // 255
        vec![255],
        // 255
        vec![255],
        // 255
        vec![255],
        // 255
        vec![255],
        // 255
        vec![255],
        // 255
        vec![255],
        // 255
        vec![255],
        // 255
        vec![255],
        // 255
        vec![255],
        // 255
        vec![255],
        // 255
        vec![255],
        // 255
        vec![255],
        // 255
        vec![255],
        // 255
        vec![255],
        // 255
        vec![255],
        // 255
        vec![255],
        // 255
        vec![255],
        // 255
        vec![255],
        // 255
        vec![255],
        // 255
        vec![255],
        // 255
        vec![255],
        // 255
        vec![255],
        // 255
        vec![255],
        // 255
        vec![255],
        // 255
        vec![255],
        // 255
        vec![255],
        // 255
        vec![255],
        // 255
        vec![255],
        // 255
        vec![255],
        // 255
        vec![255],
        // 255
        vec![255],
        // 255
        vec![255],
        // 255
        vec![255],
        // 255
        vec![255],
        // 255
        vec![255],
        // 255
        vec![255],
        // 255
        vec![255],
        // 255
        vec![255],
        // 255
        vec![255],
        // 255
        vec![255],
        // 255
        vec![255],
        // 255
        vec![255],
        // 255
        vec![255],
        // 255
        vec![255],
        // 255
        vec![255],
        // 255
        vec![255],
        // 255
        vec![255],
        // 255
        vec![255],
        // 255
        vec![255],
        // 255
        vec![255],
        // 255
        vec![255],
        // 255
        vec![255],
        // 255
        vec![255],
        // 255
        vec![255],
        // 255
        vec![255],
        // 255
        vec![255],
        // 255
        vec![255],
        // 30
        vec![30],
        // 0
        vec![0],
        // 255
        vec![255],
        // 255
        vec![255],
        // 255
        vec![255],
        // 255
        vec![255],
        // 255
        vec![255],
        // 255
        vec![255],
        // 255
        vec![255],
        // 255
        vec![255],
        // 255
        vec![255],
        // 255
        vec![255],
        // 255
        vec![255],
        // 255
        vec![255],
        // 255
        vec![255],
        // 255
        vec![255],
        // 255
        vec![255],
        // 255
        vec![255],
        // 33
        vec![33],
        // 0
        vec![0],
        // 255
        vec![255],
        // 255
        vec![255],
        // 255
        vec![255],
        // 255
        vec![255],
        // 40
        vec![40],
        // 0
        vec![0],
        // 255
        vec![255],
        // 255
        vec![255],
        // 255
        vec![255],
        // 255
        vec![255],
        // 40
        vec![40],
        // 0
        vec![0],
        // 255
        vec![255],
        // 255
        vec![255],
        // 255
        vec![255],
        // 255
        vec![255],
        // 40
        vec![40],
        // 0
        vec![0],
        // 255
        vec![255],
        // 255
        vec![255],
        // 255
        vec![255],
        // 255
        vec![255],
        // 40
        vec![40],
        // 0
        vec![0],
        // 255
        vec![255],
        // 255
        vec![255],
        // 255
        vec![255],
        // 255
        vec![255],
        // 40
        vec![40],
        // 0
        vec![0],
        // 255
        vec![255],
        // 255
        vec![255],
        // 255
        vec![255],
        // 255
        vec![255],
        // 63
        vec![63],
        // 63
        vec![63],
        // 63
        vec![63],
        // 4294967295
        vec![255, 255, 255, 255],
        // 1
        vec![1],
        // 111
        vec![111],
        // 111
        vec![111],
        // 63
        vec![63],
        // 4294967295
        vec![255, 255, 255, 255],
        // 1
        vec![1],
    ];
    kani::concrete_playback_run(concrete_vals, c18_q_vba_modules_2);
}

/// Test generated for harness `vba::k_c18_vba::c18_q_vba_modules_2` 
///
/// Check for `assertion`: "This is a placeholder message; Kani doesn't support message formatted at runtime"
///
/// # Warning
///
/// Concrete playback tests combined with stubs or contracts is highly
/// experimental, and subject to change.
///
/// The original harness has stubs which are not applied to this test.
/// This may cause a mismatch of non-deterministic values if the stub
/// creates any non-deterministic value.
/// The execution path may also differ, which can be used to refine the stub
/// logic.

#[test]
fn kani_concrete_playback_c18_q_vba_modules_2_11887915535823222383() {
    let concrete_vals: Vec<Vec<u8>> = vec![
        // 0
        vec![0],
        // 0
        vec![0],
        // 0
        vec![0],
        // 0
        vec![0],
        // 0
        vec![0],
        // 0
        vec![0],
        // 0
        vec![0],
        // 0
        vec![0],
        // 0
        vec![0],
        // 0
        vec![0],
        // 0
        vec![0],
        // 0
        vec![0],
        // 0
        vec![0],
        // 0
        vec![0],
        // 0
        vec![0],
        // 0
        vec![0],
        // 0
        vec![0],
        // 0
        vec![0],
        // 0
        vec![0],
        // 0
        vec![0],
        // 0
        vec![0],
        // 0
        vec![0],
        // 0
        vec![0],
        // 0
        vec![0],
        // 0
        vec![0],
        // 0
        vec![0],
        // 0
        vec![0],
        // 0
        vec![0],
        // 0
        vec![0],
        // 0
        vec![0],
        // 0
        vec![0],
        // 0
        vec![0],
        // 0
        vec![0],
        // 0
        vec![0],
        // 0
        vec![0],
        // 0
        vec![0],
        // 0
        vec![0],
        // 0
        vec![0],
        // 0
        vec![0],
        // 0
        vec![0],
        // 0
        vec![0],
        // 0
        vec![0],
        // 0
        vec![0],
        // 0
        vec![0],
        // 0
        vec![0],
        // 0
        vec![0],
        // 0
        vec![0],
        // 0
        vec![0],
        // 0
        vec![0],
        // 0
        vec![0],
        // 0
        vec![0],
        // 0
        vec![0],
        // 0
        vec![0],
        // 0
        vec![0],
        // 0
        vec![0],
        // 0
        vec![0],
        // 0
        vec![0],
        // 0
        vec![0],
        // 128
        vec![128],
        // 0
        vec![0],
        // 0
        vec![0],
        // 0
        vec![0],
        // 0
        vec![0],
        // 0
        vec![0],
        // 0
        vec![0],
        // 0
        vec![0],
        // 0
        vec![0],
        // 0
        vec![0],
        // 0
        vec![0],
        // 0
        vec![0],
        // 0
        vec![0],
        // 0
        vec![0],
        // 0
        vec![0],
        // 0
        vec![0],
        // 0
        vec![0],
        // 0
        vec![0],
        // 0
        vec![0],
        // 0
        vec![0],
        // 0
        vec![0],
        // 0
        vec![0],
        // 0
        vec![0],
        // 0
        vec![0],
        // 0
        vec![0],
        // 0
        vec![0],
        // 0
        vec![0],
        // 0
        vec![0],
        // 0
        vec![0],
        // 0
        vec![0],
        // 0
        vec![0],
        // 0
        vec![0],
        // 0
        vec![0],
        // 0
        vec![0],
        // 0
        vec![0],
        // 0
        vec![0],
        // 0
        vec![0],
        // 0
        vec![0],
        // 0
        vec![0],
        // 0
        vec![0],
        // 0
        vec![0],
        // 0
        vec![0],
        // 0
        vec![0],
        // 0
        vec![0],
        // 0
        vec![0],
        // 0
        vec![0],
        // 0
        vec![0],
        // 0
        vec![0],
        // 0
        vec![0],
        // 0
        vec![0],
        // 0
        vec![0],
        // 0
        vec![0],
        // 0
        vec![0],
        // 0
        vec![0],
        // 0
        vec![0],
        // 0
        vec![0],
        // 0
        vec![0],
        // 0
        vec![0],
        // 0
        vec![0],
        // 0
        vec![0],
        // 0
        vec![0],
        // 0
        vec![0],
        // 0
        vec![0],
        // 0
        vec![0],
        // 0
        vec![0],
        // 0
        vec![0],
        // 0
        vec![0],
        // 0
        vec![0],
        // 0
        vec![0],
        // 0
        vec![0],
        // 0
        vec![0],
        // 0
        vec![0],
        // 0
        vec![0],
        // 0
        vec![0],
        // 0
        vec![0],
        // 0
        vec![0],
        // 0
        vec![0],
        // 0
        vec![0],
        // 0
        vec![0],
        // 0
        vec![0],
        // 0
        vec![0],
        // 0
        vec![0],
        // 0
        vec![0],
        // 0
        vec![0],
        // 0
        vec![0],
        // 0
        vec![0],
        // 0
        vec![0],
        // 0
        vec![0],
        // 0
        vec![0],
        // 0
        vec![0],
        // 0
        vec![0],
        // 0
        vec![0],
        // 0
        vec![0],
        // 0
        vec![0],
        // 0
        vec![0],
        // 0
        vec![0],
        // 0
        vec![0],
        // 0
        vec![0],
        // 0
        vec![0],
        // 0
        vec![0],
        // 0
        vec![0],
        // 0
        vec![0],
        // 0
        vec![0],
        // 0
        vec![0],
        // 0
        vec![0],
        // 0
        vec![0],
        // 0
        vec![0],
        // 0
        vec![0],
        // 0
        vec![0],
        // 0
        vec![0],
        // 0
        vec![0],
        // 0
        vec![0],
        // 0
        vec![0],
        // 0
        vec![0],
        // 0
        vec![0],
        // 0
        vec![0],
        // 0
        vec![0],
        // 0
        vec![0],
        // 0
        vec![0],
        // 0
        vec![0],
        // 0
        vec![0],
        // 0
        vec![0],
        // 0
        vec![0],
        // 0
        vec![0],
        // 0
        vec![0],
        // 0
        vec![0],
        // 0
        vec![0],
        // 0
        vec![0],
        // 0
        vec![0],
        // 0
        vec![0],
        // 0
        vec![0],
        // 0
        vec![0],
        // 0
        vec![0],
        // 0
        vec![0],
        // 0
        vec![0],
        // 0
        vec![0],
        // 0
        vec![0],
        // 0
        vec![0],
        // 0
        vec![0],
        // 0
        vec![0],
        // 0
        vec![0],
        // 0
        vec![0],
        // 0
        vec![0],
        // 0
        vec![0],
        // 0
        vec![0],
        // 0
        vec![0],
        // 0
        vec![0],
        // 0
        vec![0],
        // 0
        vec![0],
        // 0
        vec![0],
        // 0
        vec![0],
        // 0
        vec![0],
        // 0
        vec![0],
        // 0
        vec![0],
        // 0
        vec![0],
        // 0
        vec![0],
        // 0
        vec![0],
        // 0
        vec![0],
        // 0
        vec![0],
        // 0
        vec![0],
        // 0
        vec![0],
        // 0
        vec![0],
        // 0
        vec![0],
        // 0
        vec![0],
        // 0
        vec![0],
        // 0
        vec![0],
        // 64
        vec![64],
        // 64
        vec![64],
        // 64
        vec![64],
        // 0
        vec![0, 0, 0, 0],
        // 0
        vec![0],
        // 64
        vec![64],
        // 64
        vec![64],
        // 64
        vec![64],
        // 0
        vec![0, 0, 0, 0],
        // 0
        vec![0],
    ];
    kani::concrete_playback_run(concrete_vals, c18_q_vba_modules_2);
}
