// Counterexample(s) for harness cfb::k_c18_cfb::c18_q_two_chunks_3_2 (property C18), produced by CBMC via Kani concrete playback.
// Replay: python3 /verif/run_check.py C18 --replay /verif/replays/C18/c18_q_two_chunks_3_2.rs
// (appends this test to the harness module in a scratch overlay of /repo and runs `cargo kani playback`).
/// Test generated for harness `cfb::k_c18_cfb::c18_q_two_chunks_3_2` 
///
/// Check for `assertion`: ""two chunks decompress to the concatenation of their contents""

#[test]
fn kani_concrete_playback_c18_q_two_chunks_3_2_6359886720554059963() {
    let concrete_vals: Vec<Vec<u8>> = vec![
        // 0
        vec![0],
        // 0
        vec![0],
        // 0
        vec![0],
        // 0
        vec![0],
        // 0
        vec![0],
    ];
    kani::concrete_playback_run(concrete_vals, c18_q_two_chunks_3_2);
}
