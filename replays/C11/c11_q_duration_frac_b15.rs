// Counterexample(s) for harness datatype::k_c11_dates::c11_q_duration_frac_b15 (property C11), produced by CBMC via Kani concrete playback.
// Replay: python3 /verif/run_check.py C11 --replay /verif/replays/C11/c11_q_duration_frac_b15.rs
// (appends this test to the harness module in a scratch overlay of /repo and runs `cargo kani playback`).
/// Test generated for harness `datatype::k_c11_dates::c11_q_duration_frac_b15` 
///
/// Check for `assertion`: ""duration = serial x 24h rounded to the millisecond""

#[test]
fn kani_concrete_playback_c11_q_duration_frac_b15_4191601397292974713() {
    let concrete_vals: Vec<Vec<u8>> = vec![
        // 29459
        vec![19, 115, 0, 0],
    ];
    kani::concrete_playback_run(concrete_vals, c11_q_duration_frac_b15);
}

/// Test generated for harness `datatype::k_c11_dates::c11_q_duration_frac_b15` 
///
/// Check for `cover`: "end"

#[test]
fn kani_concrete_playback_c11_q_duration_frac_b15_4127582473014570836() {
    let concrete_vals: Vec<Vec<u8>> = vec![
        // 29179
        vec![251, 113, 0, 0],
    ];
    kani::concrete_playback_run(concrete_vals, c11_q_duration_frac_b15);
}
