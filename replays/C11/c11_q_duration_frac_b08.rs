// Counterexample(s) for harness datatype::k_c11_dates::c11_q_duration_frac_b08 (property C11), produced by CBMC via Kani concrete playback.
// Replay: python3 /verif/run_check.py C11 --replay /verif/replays/C11/c11_q_duration_frac_b08.rs
// (appends this test to the harness module in a scratch overlay of /repo and runs `cargo kani playback`).
/// Test generated for harness `datatype::k_c11_dates::c11_q_duration_frac_b08` 
///
/// Check for `assertion`: ""duration = serial x 24h rounded to the millisecond""

#[test]
fn kani_concrete_playback_c11_q_duration_frac_b08_14483503182049278163() {
    let concrete_vals: Vec<Vec<u8>> = vec![
        // 248
        vec![248, 0, 0, 0],
    ];
    kani::concrete_playback_run(concrete_vals, c11_q_duration_frac_b08);
}

/// Test generated for harness `datatype::k_c11_dates::c11_q_duration_frac_b08` 
///
/// Check for `cover`: "end"

#[test]
fn kani_concrete_playback_c11_q_duration_frac_b08_15646104872963053680() {
    let concrete_vals: Vec<Vec<u8>> = vec![
        // 148
        vec![148, 0, 0, 0],
    ];
    kani::concrete_playback_run(concrete_vals, c11_q_duration_frac_b08);
}
