// Counterexample(s) for harness datatype::k_c11_dates::c11_q_duration_frac_b16 (property C11), produced by CBMC via Kani concrete playback.
// Replay: python3 /verif/run_check.py C11 --replay /verif/replays/C11/c11_q_duration_frac_b16.rs
// (appends this test to the harness module in a scratch overlay of /repo and runs `cargo kani playback`).
/// Test generated for harness `datatype::k_c11_dates::c11_q_duration_frac_b16` 
///
/// Check for `assertion`: ""duration = serial x 24h rounded to the millisecond""

#[test]
fn kani_concrete_playback_c11_q_duration_frac_b16_15936769318406528869() {
    let concrete_vals: Vec<Vec<u8>> = vec![
        // 56380
        vec![60, 220, 0, 0],
    ];
    kani::concrete_playback_run(concrete_vals, c11_q_duration_frac_b16);
}

/// Test generated for harness `datatype::k_c11_dates::c11_q_duration_frac_b16` 
///
/// Check for `cover`: "end"

#[test]
fn kani_concrete_playback_c11_q_duration_frac_b16_4614927653708560014() {
    let concrete_vals: Vec<Vec<u8>> = vec![
        // 42024
        vec![40, 164, 0, 0],
    ];
    kani::concrete_playback_run(concrete_vals, c11_q_duration_frac_b16);
}
