// Counterexample(s) for harness datatype::k_c11_dates::c11_q_anchors_1904_and_end (property C11), produced by CBMC via Kani concrete playback.
// Replay: python3 /verif/run_check.py C11 --replay /verif/replays/C11/c11_q_anchors_1904_and_end.rs
// (appends this test to the harness module in a scratch overlay of /repo and runs `cargo kani playback`).
/// Test generated for harness `datatype::k_c11_dates::c11_q_anchors_1904_and_end` 
///
/// Check for `assertion`: ""1904 system: serial 0 is 1904-01-01""

#[test]
fn kani_concrete_playback_c11_q_anchors_1904_and_end_8568921608554224530() {
    let concrete_vals: Vec<Vec<u8>> = vec![
    ];
    kani::concrete_playback_run(concrete_vals, c11_q_anchors_1904_and_end);
}
