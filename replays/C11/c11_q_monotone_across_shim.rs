// Counterexample(s) for harness datatype::k_c11_dates::c11_q_monotone_across_shim (property C11), produced by CBMC via Kani concrete playback.
// Replay: python3 /verif/run_check.py C11 --replay /verif/replays/C11/c11_q_monotone_across_shim.rs
// (appends this test to the harness module in a scratch overlay of /repo and runs `cargo kani playback`).
/// Test generated for harness `datatype::k_c11_dates::c11_q_monotone_across_shim` 
///
/// Check for `assertion`: ""conversion is monotone across serial 60""
///
/// # Warning
///
/// Concrete playback tests combined with stubs or contracts is highly
/// experimental, and subject to change.
///
/// The original harness has stubs which are not applied to this test.
/// This may cause a mismatch of non-deterministic values if the stub
/// creates any non-deterministic value.
/// The execution path may also differ, which can be used to refine the stub
/// logic.

#[test]
fn kani_concrete_playback_c11_q_monotone_across_shim_10451029489510299264() {
    let concrete_vals: Vec<Vec<u8>> = vec![
        // 59.805816
        vec![255, 255, 223, 251, 36, 231, 77, 64],
        // 60.164172
        vec![80, 80, 79, 149, 3, 21, 78, 64],
    ];
    kani::concrete_playback_run(concrete_vals, c11_q_monotone_across_shim);
}

/// Test generated for harness `datatype::k_c11_dates::c11_q_monotone_across_shim` 
///
/// Check for `cover`: "end"
///
/// # Warning
///
/// Concrete playback tests combined with stubs or contracts is highly
/// experimental, and subject to change.
///
/// The original harness has stubs which are not applied to this test.
/// This may cause a mismatch of non-deterministic values if the stub
/// creates any non-deterministic value.
/// The execution path may also differ, which can be used to refine the stub
/// logic.

#[test]
fn kani_concrete_playback_c11_q_monotone_across_shim_3906188459389057801() {
    let concrete_vals: Vec<Vec<u8>> = vec![
        // 59.012468
        vec![224, 158, 172, 142, 152, 129, 77, 64],
        // 60.339058
        vec![168, 96, 11, 62, 102, 43, 78, 64],
    ];
    kani::concrete_playback_run(concrete_vals, c11_q_monotone_across_shim);
}
