// Counterexample(s) for harness datatype::k_c11_dates::c11_q_duration_frac_b12 (property C11), produced by CBMC via Kani concrete playback.
// Replay: python3 /verif/run_check.py C11 --replay /verif/replays/C11/c11_q_duration_frac_b12.rs
// (appends this test to the harness module in a scratch overlay of /repo and runs `cargo kani playback`).
/// Test generated for harness `datatype::k_c11_dates::c11_q_duration_frac_b12` 
///
/// Check for `assertion`: ""duration = serial x 24h rounded to the millisecond""

#[test]
fn kani_concrete_playback_c11_q_duration_frac_b12_10691515475710450931() {
    let concrete_vals: Vec<Vec<u8>> = vec![
        // 2729
        vec![169, 10, 0, 0],
    ];
    kani::concrete_playback_run(concrete_vals, c11_q_duration_frac_b12);
}

/// Test generated for harness `datatype::k_c11_dates::c11_q_duration_frac_b12` 
///
/// Check for `cover`: "end"

#[test]
fn kani_concrete_playback_c11_q_duration_frac_b12_12044883932883241642() {
    let concrete_vals: Vec<Vec<u8>> = vec![
        // 3558
        vec![230, 13, 0, 0],
    ];
    kani::concrete_playback_run(concrete_vals, c11_q_duration_frac_b12);
}
