// Counterexample(s) for harness datatype::k_c11_dates::c11_q_day_1904_b06 (property C11), produced by CBMC via Kani concrete playback.
// Replay: python3 /verif/run_check.py C11 --replay /verif/replays/C11/c11_q_day_1904_b06.rs
// (appends this test to the harness module in a scratch overlay of /repo and runs `cargo kani playback`).
/// Test generated for harness `datatype::k_c11_dates::c11_q_day_1904_b06` 
///
/// Check for `assertion`: ""whole-day serial d is shim(d) days after 1899-12-30 (1900 leap bug / 1904 offset)""
///
/// # Warning
///
/// Concrete playback tests combined with stubs or contracts is highly
/// experimental, and subject to change.
///
/// The original harness has stubs which are not applied to this test.
/// This may cause a mismatch of non-deterministic values if the stub
/// creates any non-deterministic value.
/// The execution path may also differ, which can be used to refine the stub
/// logic.

#[test]
fn kani_concrete_playback_c11_q_day_1904_b06_11671635888564595997() {
    let concrete_vals: Vec<Vec<u8>> = vec![
        // 47
        vec![47, 0, 0, 0],
    ];
    kani::concrete_playback_run(concrete_vals, c11_q_day_1904_b06);
}

/// Test generated for harness `datatype::k_c11_dates::c11_q_day_1904_b06` 
///
/// Check for `cover`: "end"
///
/// # Warning
///
/// Concrete playback tests combined with stubs or contracts is highly
/// experimental, and subject to change.
///
/// The original harness has stubs which are not applied to this test.
/// This may cause a mismatch of non-deterministic values if the stub
/// creates any non-deterministic value.
/// The execution path may also differ, which can be used to refine the stub
/// logic.

#[test]
fn kani_concrete_playback_c11_q_day_1904_b06_6329762905623078371() {
    let concrete_vals: Vec<Vec<u8>> = vec![
        // 63
        vec![63, 0, 0, 0],
    ];
    kani::concrete_playback_run(concrete_vals, c11_q_day_1904_b06);
}
