// C16 — workbook metadata: the xls BoundSheet8 record (sheet name, visibility, kind, stream position).
// Child module of src/xls.rs. Only this record decoder is separable; sheet order, xlsx/xlsb/ods metadata and defined
// names are inline in zip/XML-bound code or in the parse_workbook dispatch loop and are outside the claim.
#![allow(unused_imports, dead_code)]
use super::*;
use crate::k_kcommon::*;
use crate::{SheetType, SheetVisible};

/// BoundSheet8 [MS-XLS 2.4.28]: lbPlyPos u32, hsState (2 low bits of byte 4; the reader masks 6), dt byte,
/// ShortXLUnicodeString name. WIDE = storage form of the name (shape); position, state, kind, characters symbolic.
fn boundsheet_case(wide: bool) {
    let pos: u32 = kani::any();
    let hs: u8 = kani::any();
    let dt: u8 = kani::any();
    let c: [u8; 2] = kani::any();
    kani::assume(c[0] >= 0x21 && c[0] < 0x7F && c[1] >= 0x21 && c[1] < 0x7F);
    let pb = pos.to_le_bytes();
    let narrow = [pb[0], pb[1], pb[2], pb[3], hs, dt, 2, 0, c[0], c[1]];
    let widev = [pb[0], pb[1], pb[2], pb[3], hs, dt, 2, 1, c[0], 0, c[1], 0];
    let data: &[u8] = if wide { &widev } else { &narrow };
    let mut rec = Record { typ: 0x85, data, cont: None };
    let enc = crate::cfb::k_kcfb::utf16_enc();
    let r = parse_sheet_metadata(&mut rec, &enc, Biff::Biff8);
    let vis_ok = (hs & 0x3F) <= 2;
    let typ_ok = matches!(dt, 0 | 1 | 2 | 6);
    match r {
        Ok((p, ref sheet)) => {
            assert!(vis_ok && typ_ok, "undefined visibility / sheet kind accepted");
            assert!(p == pos as usize, "sheet stream position");
            let nb = sheet.name.as_bytes();
            assert!(nb.len() == 2 && nb[0] == c[0] && nb[1] == c[1], "exact sheet name");
            match hs & 0x3F {
                0 => assert!(matches!(sheet.visible, SheetVisible::Visible), "hsState 0 = visible"),
                1 => assert!(matches!(sheet.visible, SheetVisible::Hidden), "hsState 1 = hidden"),
                _ => assert!(matches!(sheet.visible, SheetVisible::VeryHidden), "hsState 2 = very hidden"),
            }
            match dt {
                0 => assert!(matches!(sheet.typ, SheetType::WorkSheet), "dt 0 = worksheet"),
                1 => assert!(matches!(sheet.typ, SheetType::MacroSheet), "dt 1 = macro sheet"),
                2 => assert!(matches!(sheet.typ, SheetType::ChartSheet), "dt 2 = chart sheet"),
                _ => assert!(matches!(sheet.typ, SheetType::Vba), "dt 6 = VBA module"),
            }
        }
        Err(ref _e) => assert!(!(vis_ok && typ_ok), "well-formed BoundSheet8 rejected"),
    }
    kani::cover!(vis_ok && typ_ok && hs == 2 && dt == 6, "end");
    std::mem::forget(r);
    std::mem::forget(rec);
    std::mem::forget(enc);
}

#[kani::proof]
#[kani::unwind(8)]
#[kani::stub(encoding_rs::Encoding::decode, crate::k_kcommon::model_utf16_decode)]
fn c16_q_boundsheet_8bit_name() {
    boundsheet_case(false)
}
#[kani::proof]
#[kani::unwind(8)]
#[kani::stub(encoding_rs::Encoding::decode, crate::k_kcommon::model_utf16_decode)]
fn c16_q_boundsheet_16bit_name() {
    boundsheet_case(true)
}

#[kani::proof]
#[kani::unwind(8)]
#[kani::stub(encoding_rs::Encoding::decode, crate::k_kcommon::model_utf16_decode)]
fn c16_q_twin() {
    let data = [0u8, 0, 0, 0, 0, 0, 1, 0, 65];
    let mut rec = Record { typ: 0x85, data: &data, cont: None };
    let enc = crate::cfb::k_kcfb::utf16_enc();
    let r = parse_sheet_metadata(&mut rec, &enc, Biff::Biff8);
    std::mem::forget(r);
    std::mem::forget(rec);
    std::mem::forget(enc);
    assert!(false, "vacuity twin");
}
