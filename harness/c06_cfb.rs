// C06 — hostile input: compound file / VBA compression kernels. Child module of src/cfb.rs.
#![allow(unused_imports, dead_code)]
use super::*;

// (decompress_stream on arbitrary bytes: every byte may be a copy token over the 4096-byte window; 3 arbitrary bytes
// already exceed 400 s. Not admitted; the decompressor is covered functionally by C18 on well-formed shapes.)

/// Cyclic FATs (the cycle shape is concrete: a symbolic sector id makes every sector access a symbolic-offset slice and
/// the query exceeds 400 s; sector contents and the FAT entries outside the cycle are symbolic): get_chain must return
/// an error within (number of FAT entries + 1) iterations instead of appending sectors forever.
fn cycle_case(start: u32, links: &[(usize, u32)]) {
    let data: [u8; 16] = kani::any();
    let mut fats: [u32; 4] = kani::any();
    let mut i = 0;
    while i < links.len() {
        fats[links[i].0] = links[i].1;
        i += 1;
    }
    let mut s = Sectors::new(4, data.to_vec());
    let mut rd: &[u8] = &[];
    let r = s.get_chain(start, &fats, &mut rd, 0);
    assert!(r.is_err(), "a cyclic chain is an error");
    kani::cover!(true, "end");
    std::mem::forget((r, s));
}

#[kani::proof]
#[kani::unwind(7)]
fn c06_q_cfb_chain_self_loop() {
    cycle_case(2, &[(2, 2)])
}
#[kani::proof]
#[kani::unwind(7)]
fn c06_q_cfb_chain_cycle_2() {
    cycle_case(0, &[(0, 3), (3, 0)])
}
#[kani::proof]
#[kani::unwind(7)]
fn c06_q_cfb_chain_tail_then_cycle_3() {
    cycle_case(1, &[(1, 0), (0, 2), (2, 3), (3, 0)])
}

/// A link that points beyond the FAT and beyond the file (dangling): error or short read, no panic, no allocation of
/// the declared offset. The dangling id is symbolic among far-away values; the structure (which link dangles) is concrete.
#[kani::proof]
#[kani::unwind(7)]
fn c06_q_cfb_chain_dangling() {
    let data = [0u8; 8];
    let far: u32 = kani::any();
    kani::assume(far >= 2 && far != ENDOFCHAIN);
    let fats = [far, ENDOFCHAIN]; // sector 0 links to a sector far beyond the 2 that exist
    let mut s = Sectors::new(4, data.to_vec());
    let mut rd: &[u8] = &[];
    let r = s.get_chain(0, &fats, &mut rd, 0);
    assert!(s.data.capacity() <= 64, "a dangling sector id must not make the buffer grow to its offset");
    kani::cover!(true, "end");
    std::mem::forget((r, s));
}

/// Arbitrary 512-byte header: Ok or Err.
#[kani::proof]
#[kani::unwind(112)]
fn c06_q_cfb_header_any() {
    let buf: [u8; 512] = kani::any();
    kani::assume(u16::from_le_bytes([buf[30], buf[31]]) != 0x000C); // v4 reads 3584 more bytes: thorough
    let mut rd: &[u8] = &buf;
    let r = Header::from_reader(&mut rd);
    kani::cover!(r.is_ok(), "end");
    std::mem::forget(r);
}

#[kani::proof]
#[kani::unwind(6)]
fn c06_q_twin_cfb() {
    let s = [1u8, 0x01, 0xB0, 0, 7];
    let r = decompress_stream(&s);
    std::mem::forget(r);
    assert!(false, "vacuity twin");
}
