// Child of src/cfb.rs: construct an XlsEncoding without going through codepage::to_encoding.
#![allow(dead_code)]
use super::*;

pub(crate) fn utf16_enc() -> XlsEncoding {
    XlsEncoding { encoding: encoding_rs::UTF_16LE }
}
pub(crate) fn cp1252_enc() -> XlsEncoding {
    XlsEncoding { encoding: encoding_rs::WINDOWS_1252 }
}
