// C14 — xlsb formula token rendering. Child module of src/xlsb/mod.rs. Same scheme as c14_xls.rs:
// rows concrete per shape, columns / relative bits / sheet index symbolic, push_column replaced by its verified model.
#![allow(unused_imports, dead_code)]
use super::*;
use crate::k_kcommon::*;

fn colw(col: u16, col_rel: bool, row_rel: bool) -> u16 {
    col | if col_rel { 0x4000 } else { 0 } | if row_rel { 0x8000 } else { 0 }
}

fn exp_ref(exp: &mut TBuf, col: u16, l: usize, col_rel: bool, row_rel: bool, row: u64, dig: usize) {
    if !col_rel {
        exp.ch(b'$');
    }
    exp.col(col as u32, l);
    if !row_rel {
        exp.ch(b'$');
    }
    exp.dec(row + 1, dig);
}

fn run(rgce: &[u8], sheets: &[String]) -> Result<String, XlsbError> {
    let names: [(String, String); 0] = [];
    parse_formula(rgce, sheets, &names)
}

/// PtgRef (0x24/0x44/0x64): MS-XLSB RgceLoc = row (4 bytes) + ColRelShort (col 14 bits, fColRel bit 14, fRwRel bit 15).
fn ptg_ref_case<const PTG: u8, const ROW: u32, const DIG: usize, const LO: u16, const HI: u16, const L: usize>() {
    let col: u16 = kani::any();
    kani::assume(col >= LO && col < HI);
    let cr: bool = kani::any();
    let rr: bool = kani::any();
    let w = colw(col, cr, rr);
    let rb = ROW.to_le_bytes();
    let rgce = [PTG, rb[0], rb[1], rb[2], rb[3], w as u8, (w >> 8) as u8];
    let sheets: [String; 0] = [];
    let out = run(&rgce, &sheets).unwrap();
    let mut exp = TBuf::new();
    exp_ref(&mut exp, col, L, cr, rr, ROW as u64, DIG);
    assert!(exp.eq(out.as_bytes()), "PtgRef renders [$]COL[$]ROW with $ exactly on the absolute components");
    kani::cover!(cr && !rr, "end");
    std::mem::forget(out);
}

#[kani::proof]
#[kani::unwind(14)]
#[kani::stub(crate::utils::push_column, crate::k_kcommon::model_push_column_l1)]
fn c14_q_xlsb_ref_row0_l1() {
    ptg_ref_case::<0x24, 0, 1, 0, 26, 1>()
}
#[kani::proof]
#[kani::unwind(14)]
#[kani::stub(crate::utils::push_column, crate::k_kcommon::model_push_column_l2)]
fn c14_t_xlsb_ref_row9_l2() {
    ptg_ref_case::<0x44, 9, 2, 26, 702, 2>()
}
#[kani::proof]
#[kani::unwind(16)]
#[kani::stub(crate::utils::push_column, crate::k_kcommon::model_push_column_l3)]
fn c14_t_xlsb_ref_lastrow_l3() {
    ptg_ref_case::<0x64, 1048575, 7, 702, 16384, 3>()
}

/// PtgArea (0x25): rows concrete, two symbolic 1-letter columns, four relative bits.
#[kani::proof]
#[kani::unwind(18)]
#[kani::stub(crate::utils::push_column, crate::k_kcommon::model_push_column_l1)]
fn c14_t_xlsb_area() {
    let c1: u16 = kani::any();
    let c2: u16 = kani::any();
    kani::assume(c1 < 26 && c2 < 26);
    let f: [bool; 4] = kani::any();
    let w1 = colw(c1, f[0], f[1]);
    let w2 = colw(c2, f[2], f[3]);
    let rgce = [0x25u8, 1, 0, 0, 0, 99, 0, 0, 0, w1 as u8, (w1 >> 8) as u8, w2 as u8, (w2 >> 8) as u8];
    let sheets: [String; 0] = [];
    let out = run(&rgce, &sheets).unwrap();
    let mut exp = TBuf::new();
    exp_ref(&mut exp, c1, 1, f[0], f[1], 1, 1);
    exp.ch(b':');
    exp_ref(&mut exp, c2, 1, f[2], f[3], 99, 3);
    assert!(exp.eq(out.as_bytes()), "PtgArea renders first:last with $ exactly on the absolute components");
    kani::cover!(f[0] && !f[1] && !f[2] && f[3], "end");
    std::mem::forget(out);
}

/// PtgRef3d (0x3a): sheet index symbolic into a 2-sheet table.
#[kani::proof]
#[kani::unwind(16)]
#[kani::stub(crate::utils::push_column, crate::k_kcommon::model_push_column_l1)]
fn c14_q_xlsb_ref3d() {
    let ixti: u16 = kani::any();
    kani::assume(ixti < 2);
    let sheets = [String::from("S"), String::from("T2")];
    let col: u16 = kani::any();
    kani::assume(col < 26);
    let cr: bool = kani::any();
    let rr: bool = kani::any();
    let w = colw(col, cr, rr);
    let rgce = [0x3au8, ixti as u8, 0, 6, 0, 0, 0, w as u8, (w >> 8) as u8];
    let out = run(&rgce, &sheets).unwrap();
    let mut exp = TBuf::new();
    if ixti == 0 {
        exp.s(b"S");
    } else {
        exp.s(b"T2");
    }
    exp.ch(b'!');
    exp_ref(&mut exp, col, 1, cr, rr, 6, 1);
    assert!(exp.eq(out.as_bytes()), "PtgRef3d names the referenced sheet and renders the reference");
    kani::cover!(ixti == 1 && cr, "end");
    std::mem::forget(out);
    std::mem::forget(sheets);
}

#[kani::proof]
#[kani::unwind(20)]
#[kani::stub(crate::utils::push_column, crate::k_kcommon::model_push_column_l1)]
fn c14_t_xlsb_area3d() {
    let ixti: u16 = kani::any();
    kani::assume(ixti < 2);
    let sheets = [String::from("S"), String::from("T2")];
    let c1: u16 = kani::any();
    let c2: u16 = kani::any();
    kani::assume(c1 < 26 && c2 < 26);
    let f: [bool; 4] = kani::any();
    let w1 = colw(c1, f[0], f[1]);
    let w2 = colw(c2, f[2], f[3]);
    let rgce = [0x3bu8, ixti as u8, 0, 1, 0, 0, 0, 3, 0, 0, 0, w1 as u8, (w1 >> 8) as u8, w2 as u8, (w2 >> 8) as u8];
    let out = run(&rgce, &sheets).unwrap();
    let mut exp = TBuf::new();
    if ixti == 0 {
        exp.s(b"S");
    } else {
        exp.s(b"T2");
    }
    exp.ch(b'!');
    exp_ref(&mut exp, c1, 1, f[0], f[1], 1, 1);
    exp.ch(b':');
    exp_ref(&mut exp, c2, 1, f[2], f[3], 3, 1);
    assert!(exp.eq(out.as_bytes()), "PtgArea3d");
    kani::cover!(ixti == 1, "end");
    std::mem::forget(out);
    std::mem::forget(sheets);
}

#[kani::proof]
#[kani::unwind(16)]
fn c14_q_xlsb_bool_err_literals() {
    let b: u8 = kani::any();
    let rgce = [0x1Du8, b];
    let sheets: [String; 0] = [];
    let out = run(&rgce, &sheets).unwrap();
    let mut exp = TBuf::new();
    if b == 0 {
        exp.s(b"FALSE");
    } else {
        exp.s(b"TRUE");
    }
    assert!(exp.eq(out.as_bytes()), "boolean literal");
    kani::cover!(b == 0, "end");
    std::mem::forget(out);
}

#[kani::proof]
#[kani::unwind(14)]
#[kani::stub(crate::utils::push_column, crate::k_kcommon::model_push_column_l1)]
fn c14_q_twin_xlsb() {
    let rgce = [0x24u8, 0, 0, 0, 0, 1, 0];
    let sheets: [String; 0] = [];
    let out = run(&rgce, &sheets).unwrap();
    std::mem::forget(out);
    assert!(false, "vacuity twin");
}
