// C06 — hostile input: xlsb cell records shorter than the fields they carry. Child module of src/xlsb/cells_reader.rs.
#![allow(unused_imports, dead_code)]
use super::*;
use crate::k_kcommon::*;
use crate::xlsb::k_c03_xlsb::mem_iter;

/// One record of kind TYP whose declared length LEN (concrete, possibly too short for the kind) is honoured by the
/// stream; payload symbolic. Ok(..) or Err(..), never a panic.
fn short_record_case<const TYP: u8, const LEN: usize, const TOT: usize>() {
    let mut s: [u8; TOT] = kani::any();
    s[0] = TYP;
    s[1] = LEN as u8;
    let formats: [CellFormat; 0] = [];
    let strings = [String::from("x")];
    let mut rd = XlsbCellsReader {
        iter: mem_iter(&s),
        formats: &formats,
        strings: &strings,
        extern_sheets: &[],
        metadata_names: &[],
        typ: 0,
        row: 0,
        is_1904: false,
        dimensions: Dimensions { start: (0, 0), end: (0, 0) },
        buf: Vec::with_capacity(32),
    };
    let r = rd.next_cell();
    kani::cover!(true, "end");
    std::mem::forget(r);
    std::mem::forget(rd);
    std::mem::forget(strings);
}

macro_rules! short {
    ($name:ident, $typ:expr, $len:expr) => {
        #[kani::proof]
        #[kani::unwind(20)]
        #[kani::stub(encoding_rs::Encoding::decode, crate::k_kcommon::model_utf16_decode)]
        fn $name() {
            short_record_case::<$typ, $len, { 2 + $len }>()
        }
    };
}
short!(c06_q_xlsb_short_rk, 0x02, 6);
short!(c06_q_xlsb_short_bool, 0x04, 4);
short!(c06_q_xlsb_short_real, 0x05, 10);
short!(c06_q_xlsb_short_isst, 0x07, 12);
short!(c06_q_xlsb_short_rowhdr, 0x00, 2);
short!(c06_q_xlsb_short_string, 0x06, 10);

#[kani::proof]
#[kani::unwind(20)]
fn c06_q_twin_cells() {
    short_record_case::<0x04, 9, 11>();
    assert!(false, "vacuity twin");
}
