// C17 — merged regions (xls MergeCells record). Child module of src/xls.rs.
#![allow(unused_imports, dead_code)]
use super::*;
use crate::k_kcommon::*;

/// MergeCells record with N Ref8 entries (rwFirst, rwLast, colFirst, colLast — all symbolic):
/// same count, same order, corners mapped (start=(rwFirst,colFirst), end=(rwLast,colLast)).
fn merge_case<const N: usize, const LEN: usize>() {
    let mut r: [u8; LEN] = kani::any();
    r[0] = N as u8;
    r[1] = 0;
    let mut out: Vec<Dimensions> = Vec::with_capacity(4);
    let pre: bool = kani::any();
    if pre {
        // regions already collected from an earlier record of the same sheet stay in front, untouched
        out.push(Dimensions { start: (7, 7), end: (8, 9) });
    }
    let base = out.len();
    let res = parse_merge_cells(&r, &mut out);
    assert!(res.is_ok(), "well-formed MergeCells rejected");
    assert!(out.len() == base + N, "one region per Ref8 entry");
    if pre {
        assert!(out[0].start == (7, 7) && out[0].end == (8, 9), "earlier regions untouched");
    }
    let mut i = 0;
    while i < N {
        let o = 2 + 8 * i;
        let rf = u16::from_le_bytes([r[o], r[o + 1]]) as u32;
        let rl = u16::from_le_bytes([r[o + 2], r[o + 3]]) as u32;
        let cf = u16::from_le_bytes([r[o + 4], r[o + 5]]) as u32;
        let cl = u16::from_le_bytes([r[o + 6], r[o + 7]]) as u32;
        assert!(out[base + i].start == (rf, cf), "region i starts at (rwFirst, colFirst)");
        assert!(out[base + i].end == (rl, cl), "region i ends at (rwLast, colLast)");
        i += 1;
    }
    kani::cover!(pre, "end");
    std::mem::forget(out);
    std::mem::forget(res);
}

#[kani::proof]
#[kani::unwind(5)]
fn c17_q_merge_0() {
    merge_case::<0, 2>()
}
#[kani::proof]
#[kani::unwind(5)]
fn c17_q_merge_1() {
    merge_case::<1, 10>()
}
#[kani::proof]
#[kani::unwind(5)]
fn c17_q_merge_2() {
    merge_case::<2, 18>()
}
#[kani::proof]
#[kani::unwind(6)]
fn c17_q_merge_3() {
    merge_case::<3, 26>()
}
#[kani::proof]
#[kani::unwind(5)]
fn c17_q_merge_trailing_bytes() {
    // bytes after the declared entries are ignored
    merge_case::<1, 14>()
}

#[kani::proof]
#[kani::unwind(5)]
fn c17_q_twin() {
    let r = [1u8, 0, 1, 0, 2, 0, 3, 0, 4, 0];
    let mut out: Vec<Dimensions> = Vec::with_capacity(4);
    let res = parse_merge_cells(&r, &mut out);
    std::mem::forget(out);
    std::mem::forget(res);
    assert!(false, "vacuity twin");
}
