// C10 — number-format classification. Child module of src/formats.rs.
#![allow(unused_imports, dead_code)]
use super::*;
use crate::k_kcommon::*;

#[derive(Clone, Copy, PartialEq)]
enum Tk {
    Neutral, // placeholders, literals, quoted text, escapes, bracketed colour/condition/locale
    Section, // ';'
    Date,    // plain date/time token
    Elapsed, // [h] [mm] [s]
}

const NTOK: usize = 49;
const TOKLEN: usize = 7;
/// (bytes, length, kind). Quoted / escaped / bracketed entries deliberately contain date letters.
const TOKS: [([u8; TOKLEN], usize, Tk); NTOK] = [
    (*b"0      ", 1, Tk::Neutral),
    (*b"#      ", 1, Tk::Neutral),
    (*b"?      ", 1, Tk::Neutral),
    (*b".      ", 1, Tk::Neutral),
    (*b",      ", 1, Tk::Neutral),
    (*b"%      ", 1, Tk::Neutral),
    (*b"E+     ", 2, Tk::Neutral),
    (*b"0.00   ", 4, Tk::Neutral), // ("General" cannot be combined with date codes in the grammar: separate harness)
    (*b"@      ", 1, Tk::Neutral),
    (*b"       ", 1, Tk::Neutral),
    (*b"-      ", 1, Tk::Neutral),
    (*b"(      ", 1, Tk::Neutral),
    (*b")      ", 1, Tk::Neutral),
    (*b":      ", 1, Tk::Neutral),
    (*b"$      ", 1, Tk::Neutral),
    (*b"\"d\"    ", 3, Tk::Neutral),
    (*b"\"ym s\" ", 6, Tk::Neutral),
    (*b"\\d     ", 2, Tk::Neutral),
    (*b"_m     ", 2, Tk::Neutral),
    (*b"\\h     ", 2, Tk::Neutral),
    (*b"[Red]  ", 5, Tk::Neutral),
    (*b"[>=100]", 7, Tk::Neutral),
    (*b"[$-409]", 7, Tk::Neutral),
    (*b"[Cyan] ", 6, Tk::Neutral),
    (*b";      ", 1, Tk::Section),
    (*b"d      ", 1, Tk::Date),
    (*b"mm     ", 2, Tk::Date),
    (*b"yyyy   ", 4, Tk::Date),
    (*b"h      ", 1, Tk::Date),
    (*b"ss     ", 2, Tk::Date),
    (*b"AM/PM  ", 5, Tk::Date),
    (*b"[h]    ", 3, Tk::Elapsed),
    (*b"[mm]   ", 4, Tk::Elapsed),
    (*b"[s]    ", 3, Tk::Elapsed),
    (*b"[H]    ", 3, Tk::Elapsed),
    (*b"[MM]   ", 4, Tk::Elapsed),
    (*b"[S]    ", 3, Tk::Elapsed),
    (*b"[hh]   ", 4, Tk::Elapsed),
    (*b"[ss]   ", 4, Tk::Elapsed),
    (*b"D      ", 1, Tk::Date),
    (*b"MMM    ", 3, Tk::Date),
    (*b"YY     ", 2, Tk::Date),
    (*b"H      ", 1, Tk::Date),
    (*b"S      ", 1, Tk::Date),
    (*b"\"a;b\"  ", 5, Tk::Neutral), // quoted literal containing the section separator
    (*b"\\;     ", 2, Tk::Neutral),   // escaped section separator
    (*b"\\\\     ", 2, Tk::Neutral),  // escaped backslash: the escape must not leak onto the next token
    (*b"__     ", 2, Tk::Neutral),    // underscore escaping an underscore
    (*b"\\_     ", 2, Tk::Neutral),   // backslash escaping an underscore
];

/// N tokens chosen symbolically, concatenated; expected class from the token kinds:
/// only the first section counts; the first date-like token decides (plain -> DateTime, elapsed -> TimeDelta).
fn grammar_case<const N: usize, const BUF: usize>() {
    let mut buf = [b' '; BUF];
    let mut len = 0usize;
    let mut expected = CellFormat::Other;
    let mut decided = false;
    let mut i = 0;
    while i < N {
        let k: usize = kani::any();
        kani::assume(k < NTOK);
        let (bytes, l, kind) = TOKS[k];
        let mut j = 0;
        while j < TOKLEN {
            if j < l {
                buf[len + j] = bytes[j];
            }
            j += 1;
        }
        len += l;
        if !decided {
            match kind {
                Tk::Neutral => (),
                Tk::Section => decided = true,
                Tk::Date => {
                    expected = CellFormat::DateTime;
                    decided = true;
                }
                Tk::Elapsed => {
                    expected = CellFormat::TimeDelta;
                    decided = true;
                }
            }
        }
        i += 1;
    }
    let s = unsafe { std::str::from_utf8_unchecked(&buf[..len]) };
    let got = detect_custom_number_format(s);
    assert!(got == expected, "format class = class of the first date-like token of the first section");
    kani::cover!(expected == CellFormat::TimeDelta, "end-elapsed");
    kani::cover!(expected == CellFormat::DateTime, "end-date");
}

#[kani::proof]
#[kani::unwind(9)]
fn c10_q_grammar_1() {
    grammar_case::<1, 7>()
}
#[kani::proof]
#[kani::unwind(16)]
fn c10_q_grammar_2() {
    grammar_case::<2, 14>()
}
#[kani::proof]
#[kani::unwind(23)]
fn c10_q_grammar_3() {
    grammar_case::<3, 21>()
}
#[kani::proof]
#[kani::unwind(30)]
fn c10_t_grammar_4() {
    grammar_case::<4, 28>()
}
#[kani::proof]
#[kani::unwind(37)]
fn c10_t_grammar_5() {
    grammar_case::<5, 35>()
}

/// "General" alone or with neutral literals/quoted text is not a date format.
#[kani::proof]
#[kani::unwind(20)]
fn c10_q_general() {
    let k: usize = kani::any();
    kani::assume(k < 24); // neutral tokens only (the first 24 entries)
    let (bytes, l, _kind) = TOKS[k];
    let mut buf = [b' '; 14];
    let g = *b"General";
    let mut i = 0;
    while i < 7 {
        buf[i] = g[i];
        if i < l {
            buf[7 + i] = bytes[i];
        }
        i += 1;
    }
    let s = unsafe { std::str::from_utf8_unchecked(&buf[..7 + l]) };
    assert!(detect_custom_number_format(s) == CellFormat::Other, "General + neutral token is not a date format");
    kani::cover!(k == 16, "end");
}

fn is_date_letter(c: u8) -> bool {
    matches!(c.to_ascii_lowercase(), b'd' | b'm' | b'y' | b'h' | b's' | b'a' | b'p')
}

/// Raw ASCII strings of length <= N: (a) no date letter at all => Other; (b) appending ";"+anything does not
/// change the class of a string that has no ';' ... (c) inserting a quoted literal / escaped char / bracketed
/// group at the front does not change the class.
fn raw_case<const N: usize, const M: usize>() {
    let b: [u8; N] = kani::any();
    let len: usize = kani::any();
    kani::assume(len <= N);
    let mut i = 0;
    let mut has = false;
    let mut plain = true; // no quoting/escaping/bracket/section metacharacters
    while i < N {
        kani::assume(b[i] >= 0x20 && b[i] < 0x7F);
        if i < len {
            if is_date_letter(b[i]) || b[i] == b'/' {
                has = true;
            }
            if matches!(b[i], b'"' | b'\\' | b'_' | b'[' | b']' | b';') {
                plain = false;
            }
        }
        i += 1;
    }
    let s = unsafe { std::str::from_utf8_unchecked(&b[..len]) };
    let base = detect_custom_number_format(s);
    if !has {
        assert!(base == CellFormat::Other, "a format without any date letter is not a date format");
    }
    // prefix insertion: P + s has the class of s, for P in {"\"dmy\"", "\\d", "_h", "[Red]", "[$-409]"} chosen symbolically
    let which: u8 = kani::any();
    kani::assume(which < 5);
    let (p, pl): ([u8; 7], usize) = match which {
        0 => (*b"\"dmy\"  ", 5),
        1 => (*b"\\d     ", 2),
        2 => (*b"_h     ", 2),
        3 => (*b"[Red]  ", 5),
        _ => (*b"[$-409]", 7),
    };
    let mut t = [b' '; M];
    i = 0;
    while i < 7 {
        if i < pl {
            t[i] = p[i];
        }
        i += 1;
    }
    i = 0;
    while i < N {
        if i < len {
            t[pl + i] = b[i];
        }
        i += 1;
    }
    let ts = unsafe { std::str::from_utf8_unchecked(&t[..pl + len]) };
    let with_prefix = detect_custom_number_format(ts);
    assert!(with_prefix == base, "a quoted/escaped/bracketed prefix does not change the class");
    // later sections do not count: s + ";" + "d" has the class of s when s itself is plain
    if plain {
        let mut u = [b' '; M];
        i = 0;
        while i < N {
            if i < len {
                u[i] = b[i];
            }
            i += 1;
        }
        u[len] = b';';
        u[len + 1] = b'd';
        let us = unsafe { std::str::from_utf8_unchecked(&u[..len + 2]) };
        assert!(detect_custom_number_format(us) == base, "sections after the first do not count");
    }
    kani::cover!(base == CellFormat::DateTime && plain, "end");
}

#[kani::proof]
#[kani::unwind(14)]
fn c10_q_raw_4() {
    raw_case::<4, 12>()
}
#[kani::proof]
#[kani::unwind(16)]
fn c10_t_raw_6() {
    raw_case::<6, 14>()
}

/// Built-in ids: all 2^16 codes, and all decimal byte strings of 1..=3 digits, against the ECMA-376 table.
fn ref_builtin(code: u32) -> CellFormat {
    if (code >= 14 && code <= 22) || code == 45 || code == 47 {
        CellFormat::DateTime
    } else if code == 46 {
        CellFormat::TimeDelta
    } else {
        CellFormat::Other
    }
}

#[kani::proof]
fn c10_q_builtin_by_code() {
    let code: u16 = kani::any();
    assert!(builtin_format_by_code(code) == ref_builtin(code as u32), "built-in code table");
    kani::cover!(code == 46, "end");
}

#[kani::proof]
#[kani::unwind(5)]
fn c10_q_builtin_by_id() {
    let d: [u8; 3] = kani::any();
    let n: usize = kani::any();
    kani::assume(n >= 1 && n <= 3);
    kani::assume(d[0] < 10 && d[1] < 10 && d[2] < 10);
    kani::assume(n == 1 || d[0] != 0); // canonical decimal (no leading zero), as written by spreadsheet applications
    let s = [b'0' + d[0], b'0' + d[1], b'0' + d[2]];
    let mut v: u32 = 0;
    let mut i = 0;
    while i < n {
        v = v * 10 + d[i] as u32;
        i += 1;
    }
    let got = builtin_format_by_id(&s[..n]);
    assert!(got == ref_builtin(v), "built-in id table (decimal text)");
    assert!(got == builtin_format_by_code(v as u16), "id and code tables agree");
    kani::cover!(v == 22, "end");
}

/// Wrapping: value, format and date system symbolic.
#[kani::proof]
fn c10_q_wrap() {
    let v: f64 = kani::any();
    let iv: i64 = kani::any();
    let is_1904: bool = kani::any();
    let some: bool = kani::any();
    let f = any_format();
    let fo = if some { Some(&f) } else { None };
    let fc = if some { Some(f) } else { None };
    let a = format_excel_f64_ref(v, fo, is_1904);
    assert!(dsum_ref(&a) == wrap_f(v.to_bits(), fc, is_1904), "f64 wraps iff date-like, right flavour, bit-identical serial, date system kept");
    let b = format_excel_f64(v, fo, is_1904);
    assert!(dsum(&b) == wrap_f(v.to_bits(), fc, is_1904), "owned variant agrees");
    let c = format_excel_i64(iv, fo, is_1904);
    assert!(dsum(&c) == wrap_i(iv, fc, is_1904), "i64 wraps iff date-like");
    kani::cover!(some && f == CellFormat::TimeDelta, "end");
    std::mem::forget(a);
    std::mem::forget(b);
    std::mem::forget(c);
}

#[kani::proof]
#[kani::unwind(9)]
fn c10_q_twin() {
    let got = detect_custom_number_format("yyyy");
    assert!(got != CellFormat::DateTime, "vacuity twin");
}
