// C06 — hostile input: xlsx text kernels. Child module of src/xlsx/mod.rs.
#![allow(unused_imports, dead_code)]
use super::*;

/// Cell names with N digits (N concrete: 10, 11 — beyond what u32 holds) or N letters (7, 8): Ok or Err, no overflow.
fn digits_case<const N: usize, const TOT: usize>() {
    // the three most significant digits are symbolic, the rest are '9' (the overflow boundary of u32 lies in the top digits)
    let d: [u8; 3] = kani::any();
    let mut s = [b'9'; TOT];
    s[0] = b'A';
    let mut i = 0;
    while i < 3 {
        kani::assume(d[i] < 10);
        s[1 + i] = b'0' + d[i];
        i += 1;
    }
    let r = get_row_and_optional_column(&s);
    kani::cover!(r.is_err(), "end");
    std::mem::forget(r);
}
#[kani::proof]
#[kani::unwind(14)]
fn c06_q_xlsx_digits_10() {
    digits_case::<10, 11>()
}
#[kani::proof]
#[kani::unwind(14)]
fn c06_t_xlsx_digits_11() {
    digits_case::<11, 12>()
}

fn letters_case<const N: usize, const TOT: usize>() {
    let l: [u8; N] = kani::any();
    let mut s = [b'1'; TOT];
    let mut i = 0;
    while i < N {
        kani::assume(l[i] < 26);
        s[i] = b'A' + l[i];
        i += 1;
    }
    let r = get_row_and_optional_column(&s);
    kani::cover!(r.is_err(), "end");
    std::mem::forget(r);
}
#[kani::proof]
#[kani::unwind(12)]
fn c06_q_xlsx_letters_7() {
    letters_case::<7, 8>()
}
#[kani::proof]
#[kani::unwind(12)]
fn c06_t_xlsx_letters_8() {
    letters_case::<8, 9>()
}

#[kani::proof]
fn c06_q_xlsx_dimensions_len() {
    let d = Dimensions { start: (kani::any(), kani::any()), end: (kani::any(), kani::any()) };
    kani::assume(d.start.0 <= d.end.0 && d.start.1 <= d.end.1);
    let l = d.len();
    assert!(l >= 1, "a dimension holds at least one cell");
    kani::cover!(d.end.0 == u32::MAX && d.end.1 == u32::MAX && d.start.0 == 0 && d.start.1 == 0, "end");
}

#[kani::proof]
fn c06_q_twin_xlsx() {
    let r = get_row_and_optional_column(b"A1");
    std::mem::forget(r);
    assert!(false, "vacuity twin");
}
