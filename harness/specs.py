"""Per-property harness specification: hosting files, harness settings, evidence text."""
import re

# always appended (helpers): file -> hosting source
ALWAYS = {'src/lib.rs': ['kcommon.rs'], 'src/datatype.rs': ['kdt.rs'], 'src/cfb.rs': ['kcfb.rs']}

DEFAULT = dict(arena=256, alloc='lazy', timeout=1500, mem_gb=8.0, weight=1)  # generous: a timeout on the unchanged tree would make the check worthless

NOT_APPLICABLE = {
    'C07': 'purity/agreement of read calls lives in ZipArchive-bound generic methods and lazily filled caches; neither archive nor quick-xml reader can be constructed under CBMC (DESIGN 4/C07, 6)',
    'C19': 'XML unescaping, rich-text run concatenation, text:s/text:p handling are loops over quick_xml events read from a ZipFile; binary formats delegate to encoding_rs (DESIGN 4/C19)',
    'C20': 'password detection is Cfb::new over a whole container + directory lookup, a record in the parse_workbook dispatch loop, and an XML manifest scan: not encodable at container scale (DESIGN 4/C20)',
}

PROPS = {
    'C02': dict(
        level_text='Bounded model checking of the real BIFF8 cell-record decoders (rk_num for all 2^32 RK words, NUMBER/RK/MULRK/BOOLERR/LABELSST/FORMULA value decoders, RecordIter framing incl. CONTINUE gluing) against the MS-XLS layouts, plus the NUMBER/RK/MULRK metamorphic relation; decides the record-level half of the property for every value inside the shapes, not the whole-workbook composition.',
        hosts={'src/xls.rs': ['c02_xls.rs']},
        functions=['xls::rk_num', 'xls::parse_number', 'xls::parse_rk', 'xls::parse_mul_rk', 'xls::parse_bool_err', 'xls::parse_err',
                   'xls::parse_label_sst', 'xls::parse_formula_value', 'xls::RecordIter::next',
                   'formats::format_excel_i64', 'formats::format_excel_f64', 'utils::read_u16/read_u32/read_i32/read_f64'],
        bounds={'rk_num': 'all 2^32 RK words x all 2^16 ixfe x 3-entry symbolic format table x both date systems, split by the two flag bits',
                'MULRK': 'runs of 1..=3 entries', 'RecordIter': 'three records, payload lengths per shape (0..=3 bytes), ids symbolic',
                'LABELSST': '3-entry table, entry lengths 0..=2'},
        outside=['BIFF5 LABEL decoding through code pages', 'FORMULA+STRING pairing inside parse_workbook (inline dispatch loop)',
                 'whole-workbook composition (CFB image -> Xls::new)', 'MULRK runs longer than 3', 'float RK entries inside MULRK (same rk_num call as RK)'],
        assumptions=['record bodies have the legal BIFF8 length unless the harness says otherwise'],
    ),
    'C05': dict(
        level_text='Inductive bounded model checking of every Range operation on the real code: arbitrary pre-state satisfying the representation invariant (arbitrary origin and contents, heights/widths per shape up to 3x3), one operation (new, empty, from_sparse, set_value, range, every read accessor), then invariant + the operation\'s exact post-condition. One step from an arbitrary valid state covers operation histories of any length for the shapes listed.',
        hosts={'src/lib.rs': ['c05_lib.rs']},
        functions=['Range::new', 'Range::empty', 'Range::from_sparse', 'Range::set_value', 'Range::range', 'Range::get', 'Range::get_value',
                   'Range::rows/Rows', 'Range::cells/Cells', 'Range::used_cells/UsedCells', 'Index<usize>', 'Index<(usize,usize)>', 'start/end/width/height/get_size/is_empty'],
        bounds={'element type': 'Range<usize> (one instantiation of the generic code)', 'pre-state': 'height,width in 1..=3, origin any u32 in [4, 2^32-17], contents any',
                'set_value': 'target relative to start within growth <= 2 rows/cols (shape list)', 'range': 'windows up to 5x4 in the relative placements listed',
                'from_sparse': '0..=3 cells (4 thorough), bounding box <= 3x3'},
        outside=['Range<Data>/Range<String> instantiations (same generic code; Clone/Drop of the element differ)', 'rectangles larger than 3x3', 'u32 overflow of huge rectangles (C06)'],
        assumptions=['from_sparse input is sorted by row (documented precondition)', 'set_value target is at or beyond the start corner (documented precondition)'],
    ),
    'C14': dict(
        level_text='Bounded model checking of the column-lettering routine for every column (by letter count) and of the xls/xlsb Ptg token renderers on token-sequence shapes (operands with symbolic column/flags/sheet index and concrete representative rows, unary/binary operators, parentheses, fixed- and variable-arity functions) against a byte-exact A1 rendering reference.',
        hosts={'src/utils.rs': ['c14_utils.rs'], 'src/xls.rs': ['c14_xls.rs'], 'src/xlsb/mod.rs': ['c14_xlsb.rs']},
        functions=['utils::push_column', 'utils::FTAB/FTAB_ARGC', 'xls::parse_formula', 'xls::push_area/push_area_corner', 'xlsb::parse_formula', 'xlsb::push_area_corner'],
        stubs=['utils::push_column -> k_kcommon::model_push_column_l{1,2,3} inside the token-rendering harnesses (the real push_column is decided against the same closed form by c14_*_push_column_*)'],
        bounds={'push_column': 'columns 0..701 quick (1 and 2 letters), 0..65535 thorough, one query per letter count (the 3-letter query needs 10 GB and 4-6 min: thorough)',
                'tokens': 'one token sequence per harness (concrete token ids, concrete representative rows {0,4,8,9,98,65534,65535 | 0,9,1048575}), columns symbolic within a letter-count class, relative bits / sheet index / XTI contents / literal bytes symbolic'},
        outside=['xlsx/ods formula text (XML)', 'formula cell positions (inline in zip/XML-bound readers)', 'string literals (PtgStr: encoding_rs)', 'PtgNum (float formatting)', 'operator / function composition (harnesses c14_x_xls_*: String::split_off/insert/write! on the operand stack exceed 20 GB; kept in the harness file, not admitted to any tier)', 'rows other than the representatives'],
        assumptions=[],
    ),
    'C01': dict(
        level_text='Bounded model checking of the xlsx position kernels on the real code: A1 cell-name decoding for every name of each (letters, digits) shape up to XFD1048576 in both letter cases, the accept/reject boundary on arbitrary bytes, <dimension>/ref decoding, and the sparse-to-dense placement (Range::from_sparse: tight bounding box, every cell at its absolute position). The XML/zip-bound half of the property (cursor, dimension element, shared strings, part names, namespaces, compression) is outside.',
        hosts={'src/xlsx/mod.rs': ['c01_xlsx.rs'], 'src/lib.rs': ['c05_lib.rs']},
        select=[r'^c01_', r'^c05_[qt]_from_sparse'],
        functions=['xlsx::get_row_and_optional_column', 'xlsx::get_row', 'xlsx::get_row_column', 'Range::from_sparse'],
        bounds={'cell names': 'shapes (letters, digits) in {(0,1),(1,1),(1,3)} quick + {(2,2),(3,1)} thorough, every byte symbolic within its class, both letter cases; longer shapes (c01_x_*) exceed 900 s since the decoder uses checked arithmetic',
                'arbitrary bytes': 'all byte strings of length 2..=5 (6 thorough; 7 and 8 not admitted): accepted iff [A-Za-z]*[0-9]+ with non-zero row, value = reference', 
                'from_sparse': '0..=3 cells (4 thorough), bounding box <= 3x3, positions anywhere in u32'},
        outside=['implicit row/column cursor of XlsxCellReader::next_cell', '<dimension> handling, shared-string table, part-name case, relationship targets, namespace prefixes, zip compression (quick_xml/zip-typed code)',
                 'get_dimension (split/collect over symbolic bytes exceeds 20 GB in every shape tried)', 'read_v type dispatch (BytesStart attribute parsing + atoi_simd + float parsing): not admitted', 'cell names with more than 9 digits (pow overflow: C06)'],
        assumptions=[],
    ),
    'C10': dict(
        level_text='Bounded model checking of the real format scanner against a token-grammar reference (every sequence of up to 3 tokens - 5 thorough - drawn from a 49-entry table of placeholders, literals, quoted/escaped/bracketed groups containing date letters, section separators, plain and elapsed date tokens), metamorphic relations on arbitrary printable-ASCII strings, the built-in id tables for all 2^16 codes / all 1-3 digit decimal ids, and the value wrapping for every f64/i64, format and date system.',
        hosts={'src/formats.rs': ['c10_formats.rs'], 'src/xlsb/mod.rs': ['c03_xlsb.rs'], 'src/xlsb/cells_reader.rs': ['c03_cells.rs'], 'src/xls.rs': ['c02_xls.rs']},
        select=[r'^c10_', r'^c03_q_cell_(real|rk_int|rk_float)$', r'^c03_q_fmla_num$', r'^c02_q_(rk_int|rk_float|number)$'],
        substitutions='C03',
        functions=['xls::rk_num', 'xls::parse_number', 'xlsb::cell_format', 'xlsb::cells_reader::next_cell (numeric records)', 'formats::detect_custom_number_format', 'formats::builtin_format_by_id', 'formats::builtin_format_by_code', 'formats::format_excel_f64_ref', 'formats::format_excel_f64', 'formats::format_excel_i64'],
        bounds={'grammar': 'token sequences of length 1..=3 (4,5 thorough) over the 49-token table (both letter cases of the date and elapsed tokens)', 'raw strings': 'printable ASCII, length <= 4 (6 thorough)',
                'built-ins': 'all u16 codes; decimal ids of 1..=3 digits without leading zero'},
        outside=['building the style table from styles.xml / styles.bin / XF+FORMAT records (XML, zip, inline in parse_workbook)', 'non-ASCII format strings', 'the * fill escape',
                 'styles tables; the per-record plumbing is included: xls rk_num/parse_number (c02_q_*) and xlsb next_cell + 24-bit iStyleRef (c03_q_cell_*) with a symbolic 3-entry format table'],
        assumptions=['stated restriction of the grammar reference: the first date-like token of the first section decides the class'],
    ),
    'C17': dict(
        level_text='Bounded model checking of the region-geometry kernels: the xls MergeCells record decoder (count, order and corner mapping for 0..=3 symbolic Ref8 entries, earlier regions preserved) and the table data window Range::range(start,end) wherever the window lies relative to the used range (shared with C05). Attribution to sheets, xlsx mergeCell/ref parsing and the header/totals-row arithmetic are XML/zip-bound and outside.',
        hosts={'src/xls.rs': ['c17_xls.rs'], 'src/lib.rs': ['c05_lib.rs']},
        select=[r'^c17_', r'^c05_[qt]_range_'],
        functions=['xls::parse_merge_cells', 'Range::range'],
        bounds={'MergeCells': '0..=3 Ref8 entries, every field symbolic (rows/cols any u16)', 'table window': 'source <= 3x3, windows up to 5x4, placements listed under C05'},
        outside=['xlsx mergeCell ref parsing (get_dimension: not admitted, see C01)', 'attribution of regions/tables to sheets, table discovery, header/totals row arithmetic (inline in zip/XML code)'],
        assumptions=['record length >= 2 + 8*count (shorter records: hostile input, C06)'],
    ),
    'C13': dict(
        level_text='Bounded model checking of the layout-independence kernels of the compound-file reader: Sectors::get_chain returns the logical stream (truncated to its length) for every placement of a 1..=2 (3 thorough) sector chain among 4 sectors and every FAT content consistent with it; Cfb::get_stream picks the mini-stream exactly below 4096 bytes and reports unknown names; Header::from_reader decodes every field at its MS-CFB offset.',
        hosts={'src/cfb.rs': ['c13_cfb.rs', 'c13_dir.rs']},
        functions=['cfb::Sectors::get_chain', 'cfb::Sectors::get', 'cfb::Cfb::get_stream', 'cfb::Cfb::has_directory', 'cfb::Header::from_reader', 'cfb::Directory::from_slice'],
        stubs=['encoding_rs::Encoding::decode -> model_utf16_decode (directory entry names)'],
        bounds={'chain': '4 sectors of 8 bytes (stated concretisation of the sector size); placements: 6 representative permutations quick, 20 thorough (chain length 1..=4); sector contents, unused FAT entries and len symbolic',
                'cutoff': 'directory len in 1..=8192, one-sector chains', 'header': 'v3 (512-byte sectors), bytes 24..78 symbolic'},
        outside=['Cfb::new on whole containers (DIFAT/FAT loading loops over 512-byte sectors)', 'directory names longer than 2 characters / non-ASCII', 'multi-megabyte streams, DIFAT chains', 'v4 header path in quick'],
        assumptions=['the FAT describes a cycle-free chain (cyclic/dangling chains: hostile input, C06)'],
    ),
    'C18': dict(
        level_text='Bounded model checking of the real MS-OVBA decompressor against the token layout of MS-OVBA 2.4.1: literal-only chunks of 1..=9 (16 thorough) symbolic bytes across flag-byte groups, two-chunk containers including a first chunk that ends on a full flag group, and copy tokens with concrete (offset,length) after symbolic literals (overlapping copies included); and of the dir-stream module walk (read_modules) on 1-2 modules with symbolic names, stream names, 32-bit text offsets and module kinds.',
        hosts={'src/cfb.rs': ['c18_cfb.rs'], 'src/vba.rs': ['c18_vba.rs']},
        functions=['cfb::decompress_stream', 'vba::read_modules', 'vba::check_variable_record', 'vba::check_record', 'vba::read_variable_record'],
        stubs=['encoding_rs::Encoding::decode -> single-byte ASCII model in the dir-stream harnesses'],
        bounds={'chunks': '1 or 2 compressed chunks', 'tokens': '<= 16 literal tokens per chunk, <= 1 copy token with (offset,len) in {(1,3),(2,5),(3,3),(1,9)}', 'literal bytes': 'symbolic'},
        outside=['symbolic copy tokens (62 GB OOM, DESIGN 3)', 'raw (uncompressed) 4096-byte chunks', 'read_dir_information and Reference::from_stream (project information / references)', 'code-page decoding of module text'],
        assumptions=['chunks shorter than 4096 bytes before the last one (the decoder does not check the MS-OVBA 4096 rule)'],
    ),
    'C12': dict(
        level_text='Bounded model checking of the real shared-string-table reader (RecordIter -> parse_sst -> read_rich_extended_string -> read_dbcs / Record::skip / continue_record / XlsEncoding::decode_to) on two-string tables whose first string is split across CONTINUE records at every kind of split point (inside the characters with a fresh compression flag, before the first character, between strings, inside rgRun, inside ExtRst) and every 8-bit/16-bit packing per segment; characters, run/ext bytes and reserved flag bits symbolic. Both strings must decode to exactly the stored characters.',
        hosts={'src/xls.rs': ['c12_xls.rs']},
        functions=['xls::parse_label', 'xls::parse_string', 'xls::parse_short_string', 'xls::RecordIter::next', 'xls::parse_sst', 'xls::read_rich_extended_string', 'xls::read_dbcs', 'xls::Record::continue_record', 'xls::Record::skip', 'cfb::XlsEncoding::decode_to', 'cfb::XlsEncoding::high_byte'],
        stubs=['encoding_rs::Encoding::decode -> k_kcommon::model_utf16_decode (UTF-16LE, ASCII code units only)'],
        bounds={'strings': 'two strings; string 1 of 1..=3 characters, string 2 of 1..=2', 'splits': '12 split/packing shapes quick, 17 thorough (listed per harness)', 'characters': 'printable ASCII, symbolic'},
        outside=['astral and non-ASCII characters (decoder stubbed)', 'cch > 3', 'code pages other than 1200', 'formula-string (STRING record) pairing inside parse_workbook'],
        assumptions=['the CONTINUE layout follows MS-XLS 2.5.293: a flag byte only when the split falls inside the character array'],
    ),
    'C03': dict(
        level_text='Bounded model checking of the real xlsb record reader and cell decoder: varint record ids and lengths for all byte values, exact consumption of prefix + payload, and XlsbCellsReader::next_cell on streams [BrtRowHdr][optional ignorable record][cell record] for every cell record kind (BrtCellRk/Real/Bool/Error/St/Isst, BrtFmlaNum/String/Bool/Error) with symbolic row, column, style and value bytes and a symbolic 3-entry format / string table. The zip byte source is replaced by an in-memory source (declared substitution).',
        hosts={'src/xlsb/mod.rs': ['c03_xlsb.rs'], 'src/xlsb/cells_reader.rs': ['c03_cells.rs']},
        substitutions=[
            dict(file='src/xlsb/mod.rs', old='    r: BufReader<ZipFile<\'a>>,\n', new='    r: k_c03_xlsb::KSrc<\'a>,\n', count=1, why='RecordIter byte source: BufReader<ZipFile> -> struct KSrc(&[u8]) implementing Read (environment stub for the zip layer)'),
            dict(file='src/xlsb/mod.rs', old='                r: BufReader::new(f),\n', new='                r: { let _ = BufReader::new(f); k_c03_xlsb::KSrc(&[]) },\n', count=1, why='from_zip (never called by a harness) is cut off in the overlay: returns an empty in-memory source'),
        ],
        functions=['xlsb::RecordIter::read_u8', 'xlsb::RecordIter::read_type', 'xlsb::RecordIter::fill_buffer', 'xlsb::wide_str', 'xlsb::cell_format', 'xlsb::cells_reader::XlsbCellsReader::next_cell'],
        stubs=['BufReader<ZipFile> byte source -> KSrc(&[u8]) (overlay substitution, 2 sites; RecordIter::from_zip cut off)', 'encoding_rs::Encoding::decode -> model_utf16_decode in the string shapes'],
        bounds={'framing': 'ids: all 2-byte prefixes; lengths: 1..=2 prefix bytes quick (3,4 thorough), payload <= 3 bytes', 'cells': 'one cell record per kind after a row header, optional ignorable record (BrtCellBlank or a 2-byte-id record) in between; strings of 1..=2 chars; rows <= 1048575',
                'tables': '3-entry format and shared-string tables'},
        outside=['everything that needs ZipArchive (read_shared_strings, read_workbook, styles)', 'XlsbCellsReader::new (dimension / block skipping)', 'several cell records read by successive next_cell calls on one reader (harnesses c03_x_row_change / c03_x_two_rows exceed 900 s; one call per query only)', 'RK x100 values that are not multiples of 100 in quick (f64 division)', 'records longer than 127 bytes in quick'],
        assumptions=['shared-string / style indices inside the tables (out-of-range: hostile input, C06)'],
    ),
    'C04': dict(
        level_text='Bounded model checking of the real ODS range builder (get_range: bounding box + re-expansion of repeated rows) against a dense expansion reference, on run-length grids of up to 4 physical rows (lengths 0..=3, repeat counts 1..=3 per shape) with symbolic cell contents: leading, interior and trailing empty runs, repeated data rows, rows of differing lengths, data starting right of column A; plus the repeat-vs-copies metamorphic relation.',
        hosts={'src/ods.rs': ['c04_ods.rs']},
        functions=['ods::get_range', 'ods::is_empty_row'],
        bounds={'grid': '1..=4 physical rows, row length 0..=4, repeat 1..=3, emptiness pattern concrete per shape (12 quick / 15 thorough shapes), cell payloads symbolic', 'instantiation': 'get_range::<KCell> (harness cell type with concrete emptiness flag and symbolic payload)'},
        outside=['read_row (column repeats, covered cells, empty_col_repeats) and get_datatype: written against quick_xml::Reader<BufReader<ZipFile>>', 'grids larger than the shapes'],
        assumptions=['cols/rows_repeats describe the flat cell vector consistently (as parse_content builds them)'],
    ),
    'C08': dict(
        level_text='Bounded model checking of the eager header-row re-windowing on the real Reader methods of Xls and Ods: a workbook value holding one 2x2 sheet (concrete emptiness pattern, symbolic values) is read with HeaderRow::Row(n) for n before / at / inside / just after / far after the data and u32::MAX, and with the default option; never an error or panic, range starts exactly at n or is empty, every position at or below n keeps its value, rows above the data are Empty; option changes only store the option.',
        hosts={'src/xls.rs': ['c08_xls.rs'], 'src/ods.rs': ['c08_ods.rs']},
        substitutions=[
            dict(file='src/xls.rs', old='    sheets: BTreeMap<String, SheetData>,\n', new='    sheets: k_c08_xls::KMap<String, SheetData>,\n', count=1, why='Xls.sheets: BTreeMap -> association-list model KMap (std container stub; same get/insert/iter API subset)'),
            dict(file='src/xls.rs', old='            sheets: BTreeMap::new(),\n', new='            sheets: k_c08_xls::KMap::new(),\n', count=1, why='constructor site'),
            dict(file='src/xls.rs', old='        let mut sheets = BTreeMap::new();\n', new='        let mut sheets = k_c08_xls::KMap::new();\n', count=1, why='parse_workbook builds the table'),
            dict(file='src/ods.rs', old='    sheets: BTreeMap<String, (Range<Data>, Range<String>)>,\n', new='    sheets: k_c08_ods::KMap<String, (Range<Data>, Range<String>)>,\n', count=2, why='Ods.sheets / Content.sheets: BTreeMap -> KMap'),
            dict(file='src/ods.rs', old='    let mut sheets = BTreeMap::new();\n', new='    let mut sheets = k_c08_ods::KMap::new();\n', count=1, why='parse_content builds the table'),
        ],
        stubs=['std BTreeMap of the sheet table -> KMap association list (overlay substitution, declared above)'],
        functions=['xls::Xls::worksheet_range', 'xls::Xls::with_header_row', 'ods::Ods::worksheet_range', 'ods::Ods::with_header_row', 'Range::range', 'Range::new'],
        bounds={'sheet': 'one sheet, 2x2 used range at origin (2,1), 4 emptiness patterns', 'header row': 'n in {0, 1, 2, 3, 4, 4e9, u32::MAX} (shape), symbolic n only for the option store'},
        outside=['the lazy implementation in Xlsx/Xlsb::worksheet_range_ref (zip-bound generic methods)', 'larger sheets'],
        assumptions=[],
    ),
    'C09': dict(
        level_text='Bounded model checking of the real serde layer (RangeDeserializerBuilder/RangeDeserializer/RowDeserializer/DataDeserializer) on ranges of concrete shape with symbolic numeric payloads: one item per row in order with size_hint bracketing the remainder after every step, positional records without headers, CellError with the error kind and the absolute position of the failing cell without affecting other rows, the primitive conversion table, two failing rows, and (thorough) map access by header name over all headers.',
        hosts={'src/de.rs': ['c09_de.rs']},
        functions=['de::RangeDeserializerBuilder::from_range', 'de::RangeDeserializer::new', 'de::RangeDeserializer::next', 'de::RangeDeserializer::size_hint', 'de::RowDeserializer (SeqAccess)', 'de::DataDeserializer (deserialize_i64/u8/f64/bool/option/string/any)'],
        stubs=['alloc::fmt::format -> empty String (error texts)'],
        bounds={'ranges': 'heights 1..=3, widths 1..=3, origins (3,2) (4,1) (0,0)', 'records': 'tuples of i64 (positional); thorough: a map-collecting record over 3 headers', 'payloads': 'symbolic i64/f64/bool'},
        outside=['struct access through serde-derive visitors (map access over all headers is covered with a hand-written visitor, thorough)', 'Headers::Custom selection (with_headers): str::trim + position over the header row exceed 900 s; harnesses c09_x_* kept, not admitted', 'string->number parsing', 'deserialize_as_*_or_none helpers', 'ranges larger than the shapes'],
        assumptions=[],
    ),
    'C11': dict(
        level_text='Bounded model checking of the real serial-date arithmetic (feature dates): for every whole day 0..=2958465 in both date systems (one query per binade) the millisecond offset handed to chrono is exactly shim(d) days (1900 leap-bug shim, 1904 offset); time of day k/86400000 converts to exactly k ms for every k in the binades covered; durations are serial x 24h; anchors run chrono un-stubbed (1, 59, 61, 1904-0, 2958465); plain Int/Float convert like 1900-system date-times, as_date/as_time are components; non-finite and out-of-range serials give None.',
        hosts={'src/datatype.rs': ['c11_dates.rs']},
        features=['dates'],
        functions=['datatype::ExcelDateTime::as_datetime', 'datatype::ExcelDateTime::as_duration', 'DataType::as_datetime/as_date/as_time for Data'],
        stubs=['chrono::NaiveDateTime::checked_add_signed -> records the TimeDelta in ms (chrono calendar arithmetic trusted; anchors run it un-stubbed)'],
        bounds={'whole days': 'every d in 0..=2958465: 1900 system all 17 low binades + every third of the 45 slices of 65536 days quick (all thorough); 1904 system 5 binades + 3 slices quick, all thorough', 'time of day': 'k ms on day 0: low binades (k < 65536) and 6 slices of 65536 ms (after the binades, 08:19, noon, 16:39, end of day) quick; every 16th slice thorough; the other slices are not covered',
                'durations': 'whole days: 4 binades + 3 slices quick, all thorough'},
        outside=['fractional serials on days other than 0 (other (d,k) combinations)', 'global monotonicity as a relational query over two f64 products (no back end terminates); only the shim boundary is posed', 'ISO string parsing paths (chrono parsers)'],
        assumptions=[],
    ),
    'C15': dict(
        level_text='Bounded model checking of the real shared-formula text rewriter (replace_cell_names -> offset_cell_name -> coordinate_to_name / column_number_to_name / get_row_column) on master-formula templates for every member offset in 0..=2 x 0..=2 (admitted: a single relative reference with both / one offset dimension symbolic, and a reference followed by a trailing name; the larger templates - two references, area in a function call, quoted text, absolute and mixed references, function name with digits, sheet-qualified reference - exceed 12-20 GB and are kept as c15_x_* harnesses that no tier runs), against the rule stated by the property; plus column_number_to_name == bijective base-26 for every column of the sheet.',
        hosts={'src/xlsx/mod.rs': ['c15_xlsx.rs']},
        functions=['xlsx::replace_cell_names', 'xlsx::offset_cell_name', 'xlsx::coordinate_to_name', 'xlsx::column_number_to_name', 'xlsx::get_row_column'],
        bounds={'templates': '"B3", "B3*T"', 'offsets': 'dr, dc symbolic in 0..=2', 'column names': 'all columns 0..16383 by letter count, and rejection of every column >= 16384'},
        outside=['templates beyond the two admitted ones (c15_x_*)', 'the offset map built from the ref attribute and the group shapes (inline in XlsxCellReader::next_formula, XML-bound)', 'other templates / larger offsets', 'negative offsets'],
        assumptions=[],
    ),
    'C06': dict(
        level_text='Bounded model checking of slice-level parser entry points on arbitrary bytes of every length up to a small bound (xls record walkers, RecordIter, SST/BoundSheet headers; cfb decompressor, sector chains under a hostile FAT, header; xlsb cell records shorter than their fields; xlsx cell names with many digits/letters, Dimensions::len; Range::from_sparse on distant cells): Kani\'s built-in panic / index / slice / overflow / unwrap checks plus loop bounds derived from the input length decide "Ok or Err, never a panic, terminates". Genuine failures that are not repaired are listed in known_findings.json and reported as KNOWN-FINDING lines.',
        hosts={'src/xls.rs': ['c06_xls.rs'], 'src/cfb.rs': ['c06_cfb.rs'], 'src/xlsx/mod.rs': ['c06_xlsx.rs'], 'src/xlsb/mod.rs': ['c03_xlsb.rs'], 'src/xlsb/cells_reader.rs': ['c06_cells.rs'], 'src/lib.rs': ['c06_lib.rs'], 'src/vba.rs': ['c06_vba.rs']},
        select=[r'^c06_'],
        substitutions='C03',
        functions=['xls::parse_number/parse_rk/parse_bool_err/parse_label_sst/parse_formula_value/parse_mul_rk/parse_merge_cells/parse_dimensions/parse_xf/parse_sheet_metadata/parse_sst/parse_format/parse_label/parse_defined_names', 'xls::RecordIter::next',
                   'vba::read_variable_record', 'vba::check_record', 'vba::check_variable_record', 'cfb::Sectors::get', 'cfb::Sectors::get_chain', 'cfb::Header::from_reader', 'xlsb::cells_reader::XlsbCellsReader::next_cell', 'xlsx::get_row_and_optional_column', 'Dimensions::len', 'Range::from_sparse'],
        stubs=['encoding_rs::Encoding::decode -> model_utf16_decode', 'xlsb byte source -> KSrc (as in C03)', 'utils::push_column -> no-op and alloc::fmt::format -> empty string in the defined-name harnesses (only panic-freedom is decided there)'],
        bounds={'record bodies': 'every length 0..=N with N in 9..18 per entry point', 'FAT': '4 sectors; three concrete cycle shapes (self loop, 2-cycle, tail + 3-cycle) and a dangling id symbolic in [2, 2^32-3]', 'xlsb records': 'declared length shorter than the kind needs'},
        outside=['zip and quick-xml internals', 'decompress_stream on arbitrary bytes (3 arbitrary bytes exceed 400 s: every byte may be a copy token)', 'open_workbook_auto trial opening', 'whole-file time/space proportionality', 'vba.rs read_dir_information / references on arbitrary bytes, xls/xlsb parse_formula on truncated token streams (harnesses c06_x_xls_formula_tok_*: after a symbolic-length first token every following byte may be any token, > 1200 s; by reading, token operands and the cce prefix are indexed without length checks, and `iftab > FTAB_LEN` admits iftab == FTAB_LEN: not decided by a query, therefore not listed as findings)'],
        assumptions=['declared counts in MergeCells/SST headers bounded by 3 / 2 so that the loop bound is finite'],
    ),
    'C16': dict(
        level_text='Bounded model checking of the one separable metadata kernel: the xls BoundSheet8 record decoder (parse_sheet_metadata) returns the exact name (8-bit and 16-bit storage), the visibility for every hsState value, the sheet kind for every dt value, the stream position, and rejects undefined codes. Sheet order, defined names and the xlsx/xlsb/ods metadata paths are XML/zip-bound or inline in a dispatch loop and are outside the claim.',
        hosts={'src/xls.rs': ['c16_xls.rs']},
        functions=['xls::parse_sheet_metadata', 'xls::parse_short_string'],
        stubs=['encoding_rs::Encoding::decode -> model_utf16_decode'],
        bounds={'record': 'lbPlyPos any u32, hsState any byte, dt any byte, two-character name (printable ASCII, symbolic) in both storage forms'},
        outside=['sheet order and count (parse_workbook dispatch loop)', 'workbook.xml / workbook.bin / content.xml metadata (zip + quick_xml)', 'defined names, date-system flag propagation', 'names longer than 2 characters, non-ASCII names'],
        assumptions=[],
    ),
}

# (regex on harness name, overrides). First match wins after defaults.
RULES = [
    (r'_twin(_\w+)?$', dict(expect='fail', weight=0)),
    (r'^c10_', dict(arena=64)),
    (r'^c18_', dict(arena=64)),
    (r'^c18_q_(vba|twin_vba)', dict(arena=256, fs_array=256)),
    (r'^c12_', dict(arena=64)),
    (r'^c16_', dict(arena=64)),
    (r'^c04_', dict(arena=64, timeout=1200)),
    (r'^c06_', dict(arena=64, timeout=1200, mem_gb=8.0)),
    (r'^c06_q_cfb_chain_', dict(unwind_violation=True)),
    (r'^c06_q_xls_mul_rk', dict(arena=256)),
    (r'^c06_q_lib_from_sparse', dict(arena=64, ignore_pointer=True)),
    (r'^c06_q_cfb_header', dict(arena=512, fs_array=64)),
    (r'^c15_', dict(arena=64, timeout=1800, mem_gb=12.0, unwindset={'18replace_cell_names': 14, '4TBuf': 20, '5check': 20})),
    (r'^c11_', dict(arena=64, timeout=1800, mem_gb=6.0)),
    (r'^c09_', dict(arena=256, timeout=1200, mem_gb=10.0)),
    (r'^c08_', dict(arena=256, timeout=1200, mem_gb=12.0)),
    (r'^c03_', dict(arena=64)),
    (r'^c03_[qt]_fill_buffer', dict(arena=256)),
    (r'^c03_t_(row_change|two_rows)', dict(unwindset={'4KSrc': 14})),
    (r'^c13_[qt]_(chain|cutoff|stream|twin)', dict(arena=64)),
    (r'^c13_[qt]_header', dict(arena=512)),
    (r'^c13_q_directory', dict(arena=64, fs_array=128)),
    (r'^c13_q_cutoff', dict(min_covers=2)),
    (r'^c10_q_grammar', dict(min_covers=2)),
    (r'^c02_[qt]_rk_.*x100', dict(timeout=2700, weight=9)),
    (r'^c14_[qt]_push_column', dict(arena=64, mem_gb=14.0, timeout=3600, weight=9)),
    (r'^c14_[qt]_xlsb?_(binop|funcvar|unary)', dict(arena=64, mem_gb=20.0, timeout=2700, weight=8)),
    (r'^c14_[qt]_xls', dict(arena=64)),
    (r'^c14_t_xls_binop_tight', dict(arena=64, mem_gb=20.0, timeout=2700, unwindset={'4TBuf': 24, '13parse_formula': 8, '20model_push_letters': 6})),
]

DESCRIBE = {}


def tier_of(name):
    m = re.match(r'^c\d+_([qt])_', name)
    return {'q': 'quick', 't': 'thorough'}[m.group(1)] if m else None


def config_for(pid, name, tier):
    p = pid.lower() + '_'
    sel = PROPS[pid].get('select')
    if sel:
        if not any(re.search(s, name) for s in sel):
            return None
    elif not name.startswith(p):
        return None
    t = tier_of(name)
    if t is None:
        return None
    if tier == 'quick' and t != 'quick':
        return None
    cfg = dict(DEFAULT)
    thorough = False
    if tier == 'thorough':
        cfg['timeout'] = 1800
        cfg['mem_gb'] = 20.0
        thorough = True
    for rx, ov in RULES:
        if re.search(rx, name):
            cfg.update(ov)
    if thorough:
        cfg['timeout'] = max(cfg['timeout'], 1800)
        cfg['mem_gb'] = max(cfg['mem_gb'], 20.0)
    return cfg


def expected_harnesses(pid, tier, hdir=None):
    """Names of the harnesses the overlay must produce (parsed from the harness sources)."""
    import os
    names = []
    here = hdir or os.path.dirname(__file__)
    files = [f for fs in PROPS[pid].get('hosts', {}).values() for f in fs]
    for f in files:
        src = open(os.path.join(here, f)).read()
        names += re.findall(r'#\[kani::proof\](?:\s*#\[[^\]]*\])*\s*fn\s+(\w+)', src)
    return [n for n in names if config_for(pid, n, tier) is not None]


def describe(pid, name):
    return DESCRIBE.get(name, name)
