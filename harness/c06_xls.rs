// C06 — hostile input: xls record-level kernels. Child module of src/xls.rs.
// Arbitrary record bodies of every length up to the bound; only Kani's built-in checks (panic, index, slice, overflow,
// unwrap) and loop bounds decide. A trailing cover is the reachability witness.
#![allow(unused_imports, dead_code)]
use super::*;
use crate::k_kcommon::*;

fn any_slice<const N: usize>(buf: &[u8; N]) -> &[u8] {
    let n: usize = kani::any();
    kani::assume(n <= N);
    &buf[..n]
}

#[kani::proof]
#[kani::unwind(4)]
fn c06_q_xls_fixed_records() {
    let b: [u8; 16] = kani::any();
    let r = any_slice(&b);
    let formats: [CellFormat; 0] = [];
    let a = parse_number(r, &formats, false);
    let c = parse_rk(r, &formats, false);
    let d = parse_bool_err(r);
    let strings: [String; 0] = [];
    let e = parse_label_sst(r, &strings);
    kani::cover!(r.len() == 16, "end");
    std::mem::forget((a, c, d, e));
}

#[kani::proof]
#[kani::unwind(4)]
fn c06_q_xls_formula_value() {
    // the only caller passes exactly the 8-byte FormulaValue field (r.data[6..14] after a length check)
    let b: [u8; 8] = kani::any();
    let r = &b[..];
    let a = parse_formula_value(r);
    kani::cover!(r.len() == 8, "end");
    std::mem::forget(a);
}

#[kani::proof]
#[kani::unwind(6)]
fn c06_q_xls_mul_rk() {
    let b: [u8; 18] = kani::any();
    let r = any_slice(&b);
    let formats: [CellFormat; 0] = [];
    let mut cells: Vec<Cell<Data>> = Vec::with_capacity(4);
    let a = parse_mul_rk(r, &mut cells, &formats, false);
    kani::cover!(a.is_ok(), "end");
    std::mem::forget((a, cells));
}

#[kani::proof]
#[kani::unwind(5)]
fn c06_q_xls_merge_cells() {
    let b: [u8; 18] = kani::any();
    let r = any_slice(&b);
    let mut out: Vec<Dimensions> = Vec::with_capacity(4);
    if r.len() >= 2 {
        // the declared count is a free 16-bit number: bound it so that the loop bound is the claim "count <= 3"
        kani::assume(u16::from_le_bytes([r[0], r[1]]) <= 3);
    }
    let a = parse_merge_cells(r, &mut out);
    kani::cover!(a.is_ok() && out.len() == 2, "end");
    std::mem::forget((a, out));
}

#[kani::proof]
#[kani::unwind(4)]
fn c06_q_xls_dimensions_xf() {
    let b: [u8; 14] = kani::any();
    let r = any_slice(&b);
    let a = parse_dimensions(r);
    let rec = Record { typ: 0xE0, data: r, cont: None };
    let x = parse_xf(&rec);
    kani::cover!(r.len() == 14, "end");
    std::mem::forget((a, x, rec));
}

#[kani::proof]
#[kani::unwind(10)]
fn c06_q_xls_record_iter() {
    let b: [u8; 9] = kani::any();
    let s = any_slice(&b);
    let mut it = RecordIter { stream: s };
    let a = it.next();
    let c = it.next();
    kani::cover!(s.len() == 9, "end");
    std::mem::forget((a, c));
}

#[kani::proof]
#[kani::unwind(6)]
#[kani::stub(encoding_rs::Encoding::decode, crate::k_kcommon::model_utf16_decode)]
fn c06_q_xls_sheet_metadata() {
    let b: [u8; 9] = kani::any();
    let s = any_slice(&b);
    let mut rec = Record { typ: 0x85, data: s, cont: None };
    let enc = crate::cfb::k_kcfb::utf16_enc();
    let a = parse_sheet_metadata(&mut rec, &enc, Biff::Biff8);
    kani::cover!(s.len() == 9, "end");
    std::mem::forget((a, rec, enc));
}

#[kani::proof]
#[kani::unwind(6)]
#[kani::stub(encoding_rs::Encoding::decode, crate::k_kcommon::model_utf16_decode)]
fn c06_q_xls_sst_header() {
    // SST with a declared string count that the data does not back up
    let mut b: [u8; 12] = kani::any();
    // declared unique-string count: concrete 2 (a symbolic count makes the table allocation symbolic); the bytes that
    // should hold the two strings are arbitrary and may be too few
    b[4] = 2;
    b[5] = 0;
    b[6] = 0;
    b[7] = 0;
    let s = any_slice(&b);
    let mut rec = Record { typ: 0xFC, data: s, cont: None };
    let enc = crate::cfb::k_kcfb::utf16_enc();
    let a = parse_sst(&mut rec, &enc);
    kani::cover!(s.len() == 12, "end");
    std::mem::forget((a, rec, enc));
}

/// FORMAT, LABEL and string records of every length up to the bound (decoder stubbed): Ok or Err, no panic.
#[kani::proof]
#[kani::unwind(10)]
#[kani::stub(encoding_rs::Encoding::decode, crate::k_kcommon::model_utf16_decode)]
fn c06_q_xls_format_record() {
    let mut b: [u8; 8] = kani::any();
    // declared character count concrete and small (a symbolic cch only sizes a String::with_capacity)
    b[2] = 1;
    b[3] = 0;
    let s = any_slice(&b);
    let mut rec = Record { typ: 0x041E, data: s, cont: None };
    let enc = crate::cfb::k_kcfb::utf16_enc();
    let a = parse_format(&mut rec, &enc);
    kani::cover!(a.is_ok(), "end");
    std::mem::forget((a, rec, enc));
}

#[kani::proof]
#[kani::unwind(10)]
#[kani::stub(encoding_rs::Encoding::decode, crate::k_kcommon::model_utf16_decode)]
fn c06_q_xls_label_record() {
    let mut b: [u8; 12] = kani::any();
    b[6] = 1; // cch = 1
    b[7] = 0;
    let s = any_slice(&b);
    let enc = crate::cfb::k_kcfb::utf16_enc();
    let a = parse_label(s, &enc, Biff::Biff8);
    kani::cover!(a.is_ok(), "end");
    std::mem::forget((a, enc));
}

fn noop_push_column(_col: u32, _buf: &mut String) {}
fn empty_format(_args: std::fmt::Arguments<'_>) -> String {
    String::new()
}

/// Defined-name formulas (Lbl rgce) shorter than the token they start with: Ok or Err, no panic. The token id is
/// concrete (shape), the length and the other bytes symbolic; lettering and number formatting are stubbed away.
fn defined_name_case(ptg: u8) {
    let mut b: [u8; 12] = kani::any();
    b[0] = ptg;
    let s = any_slice(&b);
    let a = parse_defined_names(s);
    kani::cover!(s.len() == 12, "end");
    std::mem::forget(a);
}

#[kani::proof]
#[kani::unwind(4)]
#[kani::stub(crate::utils::push_column, noop_push_column)]
#[kani::stub(alloc::fmt::format, empty_format)]
fn c06_q_xls_defined_name_ref3d() {
    defined_name_case(0x3a)
}
#[kani::proof]
#[kani::unwind(4)]
#[kani::stub(crate::utils::push_column, noop_push_column)]
#[kani::stub(alloc::fmt::format, empty_format)]
fn c06_q_xls_defined_name_area3d() {
    defined_name_case(0x3b)
}
#[kani::proof]
#[kani::unwind(4)]
#[kani::stub(crate::utils::push_column, noop_push_column)]
#[kani::stub(alloc::fmt::format, empty_format)]
fn c06_q_xls_defined_name_err3d() {
    defined_name_case(0x3c)
}

/// Cell formulas (rgce with its 2-byte length prefix) whose first token PTG (concrete, shape) is followed by fewer bytes
/// than it needs, or whose declared cce exceeds the data: Ok or Err, no panic. Lettering / number formatting stubbed.
fn formula_token_case(ptg: u8) {
    let mut b: [u8; 10] = kani::any();
    b[2] = ptg;
    b[1] = 0;
    kani::assume(b[0] <= 8);
    let s = any_slice(&b);
    kani::assume(s.len() >= 2);
    let sheets: [String; 0] = [];
    let names: [(String, String); 0] = [];
    let xtis: [Xti; 0] = [];
    let enc = crate::cfb::k_kcfb::utf16_enc();
    let a = parse_formula(s, &sheets, &names, &xtis, &enc);
    kani::cover!(s.len() == 10, "end");
    std::mem::forget((a, enc));
}

macro_rules! ftok {
    ($name:ident, $ptg:expr) => {
        #[kani::proof]
        #[kani::unwind(6)]
        #[kani::stub(crate::utils::push_column, noop_push_column)]
        #[kani::stub(alloc::fmt::format, empty_format)]
        #[kani::stub(encoding_rs::Encoding::decode, crate::k_kcommon::model_utf16_decode)]
        fn $name() {
            formula_token_case($ptg)
        }
    };
}
ftok!(c06_x_xls_formula_tok_ref, 0x24);
ftok!(c06_x_xls_formula_tok_name, 0x23);
ftok!(c06_x_xls_formula_tok_func, 0x21);
ftok!(c06_x_xls_formula_tok_funcvar, 0x22);
ftok!(c06_x_xls_formula_tok_str, 0x17);
ftok!(c06_x_xls_formula_tok_attr, 0x19);
ftok!(c06_x_xls_formula_tok_bool, 0x1D);

#[kani::proof]
#[kani::unwind(4)]
fn c06_q_twin_xls() {
    let b: [u8; 9] = kani::any();
    let a = parse_formula_value(&b[..8]);
    std::mem::forget(a);
    assert!(false, "vacuity twin");
}
