// C02 — XLS (BIFF8) cell records. Child module of src/xls.rs (sees private items).
#![allow(unused_imports, dead_code)]
use super::*;
use crate::k_kcommon::*;

fn any_formats3() -> [CellFormat; 3] {
    [any_format(), any_format(), any_format()]
}

/// MS-XLS 2.5.217 RkNumber reference (+ documented date wrapping through the XF's format).
fn ref_rk(ixfe: u16, raw: u32, formats: &[CellFormat], is_1904: bool) -> DSum {
    let f = fmt_at(formats, ixfe as usize);
    let d100 = raw & 1 != 0;
    let is_int = raw & 2 != 0;
    if is_int {
        let v = ((raw as i32) >> 2) as i64;
        if d100 && v % 100 != 0 {
            wrap_f((v as f64 / 100.0).to_bits(), f, is_1904)
        } else {
            wrap_i(if d100 { v / 100 } else { v }, f, is_1904)
        }
    } else {
        let x = f64::from_bits(((raw & 0xFFFF_FFFC) as u64) << 32);
        wrap_f((if d100 { x / 100.0 } else { x }).to_bits(), f, is_1904)
    }
}

fn rk_case(flags: u32) {
    let ixfe: u16 = kani::any();
    let raw: u32 = kani::any();
    kani::assume(raw & 3 == flags);
    let is_1904: bool = kani::any();
    let formats = any_formats3();
    let mut rk = [0u8; 6];
    rk[0] = ixfe as u8;
    rk[1] = (ixfe >> 8) as u8;
    rk[2] = raw as u8;
    rk[3] = (raw >> 8) as u8;
    rk[4] = (raw >> 16) as u8;
    rk[5] = (raw >> 24) as u8;
    let d = rk_num(&rk, &formats, is_1904);
    assert!(dsum(&d) == ref_rk(ixfe, raw, &formats, is_1904), "rk_num equals MS-XLS RkNumber");
    kani::cover!(true, "end");
}

#[kani::proof]
fn c02_q_rk_float() {
    rk_case(0)
}
#[kani::proof]
fn c02_q_rk_float_x100() {
    rk_case(1)
}
#[kani::proof]
fn c02_q_rk_int() {
    rk_case(2)
}
#[kani::proof]
fn c02_q_rk_int_x100() {
    // integer with the divide-by-100 flag; restricted to multiples of 100 plus a non-multiple class
    // decided separately in c02_t_rk_int_x100_frac (the f64 division is the slow part)
    let ixfe: u16 = kani::any();
    let raw: u32 = kani::any();
    kani::assume(raw & 3 == 3);
    let v = ((raw as i32) >> 2) as i64;
    kani::assume(v % 100 == 0);
    let is_1904: bool = kani::any();
    let formats = any_formats3();
    let rk = [ixfe as u8, (ixfe >> 8) as u8, raw as u8, (raw >> 8) as u8, (raw >> 16) as u8, (raw >> 24) as u8];
    let d = rk_num(&rk, &formats, is_1904);
    assert!(dsum(&d) == wrap_i(v / 100, fmt_at(&formats, ixfe as usize), is_1904), "x100 integer multiple stays Int");
    kani::cover!(v == 12300, "end");
}
#[kani::proof]
fn c02_t_rk_int_x100_frac() {
    // non-multiples of 100 must come back as a Float (not a truncated Int), whatever the value
    let ixfe: u16 = kani::any();
    let raw: u32 = kani::any();
    kani::assume(raw & 3 == 3);
    let v = ((raw as i32) >> 2) as i64;
    kani::assume(v % 100 != 0);
    let is_1904: bool = kani::any();
    let formats: [CellFormat; 0] = [];
    let rk = [ixfe as u8, (ixfe >> 8) as u8, raw as u8, (raw >> 8) as u8, (raw >> 16) as u8, (raw >> 24) as u8];
    let d = rk_num(&rk, &formats, is_1904);
    match d {
        Data::Float(f) => {
            // exact quotient: |f*100 - v| < 1 and sign preserved (cheap relational form, no second division)
            let back = f * 100.0;
            assert!(back > (v - 1) as f64 && back < (v + 1) as f64, "x100 fraction is v/100");
        }
        _ => assert!(false, "x100 non-multiple must be Float"),
    }
    kani::cover!(v == 12345, "end");
}
#[kani::proof]
fn c02_q_rk_int_x100_exact() {
    rk_case(3)
}

#[kani::proof]
fn c02_q_number() {
    let r: [u8; 14] = kani::any();
    let is_1904: bool = kani::any();
    let formats = any_formats3();
    let c = parse_number(&r, &formats, is_1904).unwrap();
    let row = u16::from_le_bytes([r[0], r[1]]) as u32;
    let col = u16::from_le_bytes([r[2], r[3]]) as u32;
    let ixfe = u16::from_le_bytes([r[4], r[5]]) as usize;
    let bits = u64::from_le_bytes([r[6], r[7], r[8], r[9], r[10], r[11], r[12], r[13]]);
    assert!(c.get_position() == (row, col), "NUMBER position");
    assert!(dsum(c.get_value()) == wrap_f(bits, fmt_at(&formats, ixfe), is_1904), "NUMBER value is the IEEE double, bit-exact");
    kani::cover!(true, "end");
    std::mem::forget(c);
}

#[kani::proof]
fn c02_q_number_longer() {
    // trailing bytes after the 14-byte body do not matter; shorter bodies are Err
    let r: [u8; 16] = kani::any();
    let n: usize = kani::any();
    kani::assume(n <= 16);
    let formats: [CellFormat; 0] = [];
    match parse_number(&r[..n], &formats, false) {
        Ok(c) => {
            assert!(n >= 14, "short NUMBER accepted");
            let bits = u64::from_le_bytes([r[6], r[7], r[8], r[9], r[10], r[11], r[12], r[13]]);
            assert!(dsum(c.get_value()) == DSum::Float(bits));
            std::mem::forget(c);
        }
        Err(e) => {
            assert!(n < 14, "full NUMBER rejected");
            std::mem::forget(e);
        }
    }
    kani::cover!(n == 14, "end");
}

#[kani::proof]
fn c02_q_rk_record() {
    let r: [u8; 10] = kani::any();
    kani::assume(r[6] & 3 == 2); // integer flavour keeps the query float-free; float flavours are c02_q_rk_float
    let is_1904: bool = kani::any();
    let formats = any_formats3();
    let c = parse_rk(&r, &formats, is_1904).unwrap();
    let row = u16::from_le_bytes([r[0], r[1]]) as u32;
    let col = u16::from_le_bytes([r[2], r[3]]) as u32;
    let ixfe = u16::from_le_bytes([r[4], r[5]]);
    let raw = u32::from_le_bytes([r[6], r[7], r[8], r[9]]);
    assert!(c.get_position() == (row, col), "RK position");
    assert!(dsum(c.get_value()) == ref_rk(ixfe, raw, &formats, is_1904), "RK value");
    kani::cover!(true, "end");
    std::mem::forget(c);
}

#[kani::proof]
fn c02_q_rk_record_float() {
    let r: [u8; 10] = kani::any();
    kani::assume(r[6] & 3 == 0);
    let formats: [CellFormat; 0] = [];
    let c = parse_rk(&r, &formats, false).unwrap();
    let row = u16::from_le_bytes([r[0], r[1]]) as u32;
    let col = u16::from_le_bytes([r[2], r[3]]) as u32;
    let raw = u32::from_le_bytes([r[6], r[7], r[8], r[9]]);
    assert!(c.get_position() == (row, col), "RK position");
    assert!(dsum(c.get_value()) == DSum::Float(((raw & 0xFFFF_FFFC) as u64) << 32), "RK float value");
    kani::cover!(true, "end");
    std::mem::forget(c);
}

#[kani::proof]
fn c02_q_boolerr() {
    let r: [u8; 8] = kani::any();
    let row = u16::from_le_bytes([r[0], r[1]]) as u32;
    let col = u16::from_le_bytes([r[2], r[3]]) as u32;
    let v = r[6];
    let is_err = r[7];
    let known = matches!(v, 0x00 | 0x07 | 0x0F | 0x17 | 0x1D | 0x24 | 0x2A | 0x2B);
    match parse_bool_err(&r) {
        Ok(c) => {
            assert!(c.get_position() == (row, col), "BOOLERR position");
            if is_err == 0 {
                assert!(dsum(c.get_value()) == DSum::Bool(v != 0), "BOOLERR boolean");
            } else {
                assert!(is_err == 1 && known, "BOOLERR accepted an unknown code");
                assert!(dsum(c.get_value()) == DSum::Err(v), "BOOLERR error code one-to-one");
            }
            std::mem::forget(c);
        }
        Err(e) => {
            assert!(is_err > 1 || (is_err == 1 && !known), "BOOLERR rejected a valid record");
            std::mem::forget(e);
        }
    }
    kani::cover!(is_err == 1 && v == 0x2A, "end");
}

#[kani::proof]
fn c02_q_formula_value() {
    let r: [u8; 8] = kani::any();
    let res = parse_formula_value(&r);
    let special = r[6] == 0xFF && r[7] == 0xFF;
    if !special {
        match res {
            Ok(Some(Data::Float(f))) => assert!(f.to_bits() == u64::from_le_bytes(r), "FORMULA cached number bit-exact"),
            _ => assert!(false, "FORMULA numeric result not Float"),
        }
    } else {
        match r[0] {
            0 => assert!(matches!(res, Ok(None)), "string marker"),
            1 => match res {
                Ok(Some(Data::Bool(b))) => assert!(b == (r[2] != 0), "FORMULA cached bool"),
                _ => assert!(false, "FORMULA bool"),
            },
            2 => {
                let known = matches!(r[2], 0x00 | 0x07 | 0x0F | 0x17 | 0x1D | 0x24 | 0x2A | 0x2B);
                match res {
                    Ok(Some(Data::Error(ref e))) => assert!(known && err_code(e) == r[2], "FORMULA cached error"),
                    Err(ref _e) => assert!(!known),
                    _ => assert!(false, "FORMULA error"),
                }
            }
            3 => match res {
                Ok(Some(Data::String(ref s))) => assert!(s.is_empty(), "blank string"),
                _ => assert!(false, "FORMULA blank"),
            },
            _ => assert!(res.is_err(), "unknown cached-value kind must be an error"),
        }
    }
    kani::cover!(special && r[0] == 2, "end");
    std::mem::forget(res);
}

#[kani::proof]
fn c02_q_label_sst() {
    let r: [u8; 10] = kani::any();
    // 3-entry table; entry lengths symbolic in 0..=2, characters symbolic printable ASCII including the space
    // (a whitespace-only string is still a non-empty cell)
    let l0: usize = kani::any();
    let l1: usize = kani::any();
    let l2: usize = kani::any();
    kani::assume(l0 <= 2 && l1 <= 2 && l2 <= 2);
    let ch: [u8; 2] = kani::any();
    kani::assume(ch[0] >= 0x20 && ch[0] < 0x7F && ch[1] >= 0x20 && ch[1] < 0x7F);
    let mk = |l: usize| {
        let mut s = String::with_capacity(2);
        if l >= 1 {
            s.push(ch[0] as char);
        }
        if l >= 2 {
            s.push(ch[1] as char);
        }
        s
    };
    let strings = [mk(l0), mk(l1), mk(l2)];
    let lens = [l0, l1, l2];
    let row = u16::from_le_bytes([r[0], r[1]]) as u32;
    let col = u16::from_le_bytes([r[2], r[3]]) as u32;
    let i = u32::from_le_bytes([r[6], r[7], r[8], r[9]]) as usize;
    let res = parse_label_sst(&r, &strings).unwrap();
    if i < 3 && lens[i] > 0 {
        match res {
            Some(ref c) => {
                assert!(c.get_position() == (row, col), "LABELSST position");
                match c.get_value() {
                    Data::String(s) => {
                        assert!(s.len() == lens[i], "LABELSST resolves index i");
                        assert!(s.as_bytes()[0] == ch[0], "LABELSST text is the table entry");
                    }
                    _ => assert!(false, "LABELSST not a string"),
                }
            }
            None => assert!(false, "LABELSST dropped a non-empty string"),
        }
    } else {
        assert!(res.is_none(), "LABELSST out-of-range or empty string yields no cell");
    }
    kani::cover!(i == 2 && l2 == 2, "end");
    std::mem::forget(res);
    std::mem::forget(strings);
}

fn mulrk_case<const N: usize, const LEN: usize>() {
    // LEN = 6 + 6*N
    let r: [u8; LEN] = kani::any();
    let is_1904: bool = kani::any();
    let formats = any_formats3();
    let mut k = 0;
    while k < N {
        kani::assume(r[4 + 6 * k + 2] & 3 == 2); // integer RK entries (float entries: see metamorphic harness)
        k += 1;
    }
    let row = u16::from_le_bytes([r[0], r[1]]) as u32;
    let cf = u16::from_le_bytes([r[2], r[3]]) as u32;
    let cl = u16::from_le_bytes([r[LEN - 2], r[LEN - 1]]) as u32;
    kani::assume(cl >= cf && cl <= 255); // BIFF8 sheets have columns 0..=255; cl < cf or huge spans: hostile input, decided under C06
    let mut cells: Vec<Cell<Data>> = Vec::with_capacity(4);
    let res = parse_mul_rk(&r, &mut cells, &formats, is_1904);
    if cl - cf + 1 == N as u32 {
        assert!(res.is_ok(), "well-formed MULRK rejected");
        assert!(cells.len() == N, "MULRK yields one cell per entry");
        let mut k = 0;
        while k < N {
            let o = 4 + 6 * k;
            let ixfe = u16::from_le_bytes([r[o], r[o + 1]]);
            let raw = u32::from_le_bytes([r[o + 2], r[o + 3], r[o + 4], r[o + 5]]);
            assert!(cells[k].get_position() == (row, cf + k as u32), "MULRK cell k at (row, colFirst+k)");
            assert!(dsum(cells[k].get_value()) == ref_rk(ixfe, raw, &formats, is_1904), "MULRK entry value");
            k += 1;
        }
    } else {
        assert!(res.is_err(), "MULRK with inconsistent colLast accepted");
        assert!(cells.is_empty());
    }
    kani::cover!(cl - cf + 1 == N as u32, "end");
    std::mem::forget(cells);
    std::mem::forget(res);
}

#[kani::proof]
#[kani::unwind(3)]
fn c02_q_mulrk_n1() {
    mulrk_case::<1, 12>()
}
#[kani::proof]
#[kani::unwind(4)]
fn c02_q_mulrk_n2() {
    mulrk_case::<2, 18>()
}
#[kani::proof]
#[kani::unwind(5)]
fn c02_q_mulrk_n3() {
    mulrk_case::<3, 24>()
}

/// K3 metamorphic: one 30-bit integer in a NUMBER record (as a double), an RK record and slot k of a
/// MULRK run reads as numerically equal values at the same (row, col).
#[kani::proof]
#[kani::unwind(4)]
fn c02_q_meta_int() {
    let row: u16 = kani::any();
    let col: u16 = kani::any();
    kani::assume(col < 0xFFFF);
    let v30: i32 = kani::any();
    kani::assume(v30 >= -(1 << 29) && v30 < (1 << 29));
    let raw = ((v30 << 2) as u32) | 2;
    let other: u32 = kani::any();
    kani::assume(other & 3 == 2);
    let formats: [CellFormat; 0] = [];
    let rb = row.to_le_bytes();
    let cb = col.to_le_bytes();
    let c1 = (col + 1).to_le_bytes();
    let rw = raw.to_le_bytes();
    let ow = other.to_le_bytes();
    // RK
    let rk = [rb[0], rb[1], cb[0], cb[1], 0, 0, rw[0], rw[1], rw[2], rw[3]];
    let a = parse_rk(&rk, &formats, false).unwrap();
    // NUMBER
    let fb = (v30 as f64).to_bits().to_le_bytes();
    let num = [rb[0], rb[1], cb[0], cb[1], 0, 0, fb[0], fb[1], fb[2], fb[3], fb[4], fb[5], fb[6], fb[7]];
    let b = parse_number(&num, &formats, false).unwrap();
    // MULRK, our value in slot k of 2
    let k: bool = kani::any();
    let (s0, s1, clb) = (rw, ow, c1);
    let m = if k {
        // value in slot 1: run starts at col-1 (needs col >= 1)
        kani::assume(col >= 1);
        let st = (col - 1).to_le_bytes();
        [rb[0], rb[1], st[0], st[1], 0, 0, s1[0], s1[1], s1[2], s1[3], 0, 0, s0[0], s0[1], s0[2], s0[3], cb[0], cb[1]]
    } else {
        [rb[0], rb[1], cb[0], cb[1], 0, 0, s0[0], s0[1], s0[2], s0[3], 0, 0, s1[0], s1[1], s1[2], s1[3], clb[0], clb[1]]
    };
    let mut cells: Vec<Cell<Data>> = Vec::with_capacity(4);
    parse_mul_rk(&m, &mut cells, &formats, false).unwrap();
    let idx = if k { 1 } else { 0 };
    assert!(a.get_position() == (row as u32, col as u32));
    assert!(b.get_position() == a.get_position(), "NUMBER and RK land on the same cell");
    assert!(cells[idx].get_position() == a.get_position(), "MULRK slot lands on the same cell");
    match (a.get_value(), b.get_value(), cells[idx].get_value()) {
        (Data::Int(x), Data::Float(y), Data::Int(z)) => {
            assert!(*x == v30 as i64, "RK integer is the stored 30-bit value");
            assert!(*y == *x as f64, "NUMBER and RK numerically equal");
            assert!(*z == *x, "MULRK and RK equal");
        }
        _ => assert!(false, "unexpected types"),
    }
    kani::cover!(k && v30 == -5, "end");
    std::mem::forget(cells);
}

// ---------------------------------------------------------------- K4 RecordIter framing
/// `it.next().is_none()` without ever dropping a `Result<_, XlsError>` (its drop glue recurses through
/// `io::Error`'s `Box<dyn Error>` and blows the symbolic execution up).
fn next_is_none(it: &mut RecordIter<'_>) -> bool {
    match it.next() {
        None => true,
        Some(x) => {
            std::mem::forget(x);
            false
        }
    }
}
/// Stream of three records with payload lengths A, B, C (shape) and symbolic ids/payloads.
/// Expected: records are framed by (id,len); a record whose id is 0x003C following another record is
/// glued to it as a continuation fragment, in order.
fn reciter_case<const A: usize, const B: usize, const C: usize, const TOT: usize, const ID1: u16, const ID2: u16>() {
    let mut s: [u8; TOT] = kani::any();
    let mut ids: [u16; 3] = kani::any();
    kani::assume(ids[0] != 0x3C);
    // ID1/ID2 (shape): id of record 2 / record 3. 0x003C = CONTINUE. A concrete id lets symbolic execution follow a
    // single framing path (measured 10 s vs 130-330 s); 0 = leave the id symbolic (!= 0x3C), used by the thorough tier.
    if ID1 != 0 {
        ids[1] = ID1;
    } else {
        kani::assume(ids[1] != 0x3C);
    }
    if ID2 != 0 {
        ids[2] = ID2;
    } else {
        kani::assume(ids[2] != 0x3C);
    }
    let lens = [A, B, C];
    let mut off = [0usize; 3];
    let mut p = 0;
    let mut i = 0;
    while i < 3 {
        off[i] = p;
        s[p] = ids[i] as u8;
        s[p + 1] = (ids[i] >> 8) as u8;
        s[p + 2] = lens[i] as u8;
        s[p + 3] = 0;
        p += 4 + lens[i];
        i += 1;
    }
    let mut it = RecordIter { stream: &s };
    // expected grouping
    let c1 = ids[1] == 0x3C;
    let c2 = ids[2] == 0x3C && (C > 0); // calamine only glues a trailing CONTINUE when more than its header remains
    let r0 = it.next().unwrap().unwrap();
    assert!(r0.typ == ids[0], "first record id");
    assert!(r0.data.len() == A, "first record length");
    let mut j = 0;
    while j < A {
        assert!(r0.data[j] == s[off[0] + 4 + j], "first record payload");
        j += 1;
    }
    if c1 {
        let cont = r0.cont.as_ref().unwrap();
        assert!(cont.len() == if c2 { 2 } else { 1 }, "number of glued CONTINUE fragments");
        assert!(cont[0].len() == B, "fragment 1 length");
        j = 0;
        while j < B {
            assert!(cont[0][j] == s[off[1] + 4 + j], "fragment 1 payload");
            j += 1;
        }
        if c2 {
            assert!(cont[1].len() == C, "fragment 2 length");
            j = 0;
            while j < C {
                assert!(cont[1][j] == s[off[2] + 4 + j], "fragment 2 payload");
                j += 1;
            }
            assert!(next_is_none(&mut it), "stream exhausted");
        } else {
            let r2 = it.next().unwrap().unwrap();
            assert!(r2.typ == ids[2] && r2.data.len() == C && r2.cont.is_none());
            assert!(next_is_none(&mut it), "stream exhausted");
            std::mem::forget(r2);
        }
    } else {
        assert!(r0.cont.is_none(), "no continuation expected");
        let r1 = it.next().unwrap().unwrap();
        assert!(r1.typ == ids[1] && r1.data.len() == B, "second record framing");
        j = 0;
        while j < B {
            assert!(r1.data[j] == s[off[1] + 4 + j], "second record payload");
            j += 1;
        }
        if c2 {
            let cont = r1.cont.as_ref().unwrap();
            assert!(cont.len() == 1 && cont[0].len() == C, "CONTINUE glued to record 2");
            assert!(next_is_none(&mut it), "stream exhausted");
        } else {
            assert!(r1.cont.is_none());
            let r2 = it.next().unwrap().unwrap();
            assert!(r2.typ == ids[2] && r2.data.len() == C, "third record framing");
            assert!(next_is_none(&mut it), "stream exhausted");
            std::mem::forget(r2);
        }
        std::mem::forget(r1);
    }
    kani::cover!(true, "end");
    std::mem::forget(r0);
}

#[kani::proof]
#[kani::unwind(5)]
fn c02_q_reciter_2_1_2_3c_3c() {
    reciter_case::<2, 1, 2, 17, 0x3c, 0x3c>()
}
#[kani::proof]
#[kani::unwind(5)]
fn c02_q_reciter_0_2_1_3c_203() {
    reciter_case::<0, 2, 1, 15, 0x3c, 0x203>()
}
#[kani::proof]
#[kani::unwind(5)]
fn c02_q_reciter_1_0_3_3d_3c() {
    reciter_case::<1, 0, 3, 16, 0x3d, 0x3c>()
}
#[kani::proof]
#[kani::unwind(5)]
fn c02_q_reciter_1_2_0_3c00_bd() {
    reciter_case::<1, 2, 0, 15, 0x3c00, 0xbd>()
}
#[kani::proof]
#[kani::unwind(5)]
fn c02_q_reciter_1_1_0_3c_3c() {
    reciter_case::<1, 1, 0, 14, 0x3c, 0x3c>()
}
#[kani::proof]
#[kani::unwind(5)]
fn c02_q_reciter_2_2_2_13c_3d() {
    reciter_case::<2, 2, 2, 18, 0x13c, 0x3d>()
}
#[kani::proof]
#[kani::unwind(5)]
fn c02_t_reciter_3_3_3_3c_3c() {
    reciter_case::<3, 3, 3, 21, 0x3c, 0x3c>()
}
#[kani::proof]
#[kani::unwind(5)]
fn c02_t_reciter_3_3_3_0_0() {
    reciter_case::<3, 3, 3, 21, 0x0, 0x0>()
}
#[kani::proof]
#[kani::unwind(5)]
fn c02_t_reciter_2_0_2_3c_3c() {
    reciter_case::<2, 0, 2, 16, 0x3c, 0x3c>()
}
#[kani::proof]
#[kani::unwind(5)]
fn c02_t_reciter_0_2_1_3c_0() {
    reciter_case::<0, 2, 1, 15, 0x3c, 0x0>()
}
#[kani::proof]
#[kani::unwind(5)]
fn c02_t_reciter_1_0_3_0_3c() {
    reciter_case::<1, 0, 3, 16, 0x0, 0x3c>()
}

/// Truncation: a declared length that exceeds what is left is an error, never a shorter record.
#[kani::proof]
#[kani::unwind(5)]
fn c02_q_reciter_truncated() {
    let s: [u8; 8] = kani::any();
    let n: usize = kani::any();
    kani::assume(n >= 1 && n <= 8);
    let mut it = RecordIter { stream: &s[..n] };
    let declared = u16::from_le_bytes([s[2], s[3]]) as usize;
    match it.next() {
        Some(Ok(r)) => {
            assert!(n >= 4 && declared + 4 <= n, "truncated record accepted");
            assert!(r.data.len() == declared, "record length equals declared length");
            std::mem::forget(r);
        }
        Some(Err(e)) => {
            assert!(n < 4 || declared + 4 > n || true);
            std::mem::forget(e);
        }
        None => assert!(false, "non-empty stream yielded nothing"),
    }
    kani::cover!(n == 8 && declared == 4, "end");
}

/// Reachability twin for the family: must FAIL.
#[kani::proof]
fn c02_q_twin() {
    let r: [u8; 14] = kani::any();
    let formats: [CellFormat; 0] = [];
    let c = parse_number(&r, &formats, false).unwrap();
    std::mem::forget(c);
    assert!(false, "vacuity twin");
}
