// C18 — MS-OVBA decompression. Child module of src/cfb.rs.
// Shapes: number of chunks, number/kind of tokens per chunk are concrete; literal bytes are symbolic;
// copy tokens are concrete (offset,len) pairs (a symbolic copy token exceeds 62 GB, see DESIGN 3).
#![allow(unused_imports, dead_code)]
use super::*;

fn chunk_header(data_bytes: usize) -> [u8; 2] {
    // CompressedChunkHeader: size = bytes in chunk - 3 = data_bytes - 1; signature 0b011; flag 1 (compressed)
    let h: u16 = 0xB000 | (data_bytes as u16 - 1);
    [h as u8, (h >> 8) as u8]
}

/// One compressed chunk of N literal tokens (N <= 16: up to two flag-byte groups).
fn literals_case<const N: usize, const LEN: usize>() {
    let lits: [u8; N] = kani::any();
    let groups = (N + 7) / 8;
    let mut s = [0u8; LEN];
    s[0] = 1;
    let h = chunk_header(N + groups);
    s[1] = h[0];
    s[2] = h[1];
    let mut p = 3;
    let mut i = 0;
    while i < N {
        if i % 8 == 0 {
            s[p] = 0; // flag byte: eight literal tokens
            p += 1;
        }
        s[p] = lits[i];
        p += 1;
        i += 1;
    }
    let out = decompress_stream(&s).unwrap();
    assert!(out.len() == N, "literal-only chunk decompresses to its literals");
    i = 0;
    while i < N {
        assert!(out[i] == lits[i], "literal bytes in order");
        i += 1;
    }
    kani::cover!(true, "end");
    std::mem::forget(out);
}

macro_rules! lit {
    ($name:ident, $n:expr) => {
        #[kani::proof]
        #[kani::unwind(20)]
        fn $name() {
            literals_case::<$n, { 3 + $n + ($n + 7) / 8 }>()
        }
    };
}
lit!(c18_q_literals_1, 1);
lit!(c18_q_literals_3, 3);
lit!(c18_q_literals_7, 7);
lit!(c18_q_literals_8, 8);
lit!(c18_q_literals_9, 9);
lit!(c18_t_literals_16, 16);

/// Two compressed chunks of A and B literals. (MS-OVBA: every chunk but the last decompresses to 4096 bytes; the
/// decoder does not check that, so the framing logic is exercised with short chunks. A == 8 makes the first
/// chunk end exactly on a full flag-byte group.)
fn two_chunks_case<const A: usize, const B: usize, const LEN: usize>() {
    let la: [u8; A] = kani::any();
    let lb: [u8; B] = kani::any();
    let mut s = [0u8; LEN];
    s[0] = 1;
    let mut p = 1;
    let h = chunk_header(A + (A + 7) / 8);
    s[p] = h[0];
    s[p + 1] = h[1];
    p += 2;
    let mut i = 0;
    while i < A {
        if i % 8 == 0 {
            s[p] = 0;
            p += 1;
        }
        s[p] = la[i];
        p += 1;
        i += 1;
    }
    let h = chunk_header(B + (B + 7) / 8);
    s[p] = h[0];
    s[p + 1] = h[1];
    p += 2;
    i = 0;
    while i < B {
        if i % 8 == 0 {
            s[p] = 0;
            p += 1;
        }
        s[p] = lb[i];
        p += 1;
        i += 1;
    }
    let out = decompress_stream(&s).unwrap();
    assert!(out.len() == A + B, "two chunks decompress to the concatenation of their contents");
    i = 0;
    while i < A {
        assert!(out[i] == la[i], "first chunk content");
        i += 1;
    }
    i = 0;
    while i < B {
        assert!(out[A + i] == lb[i], "second chunk content");
        i += 1;
    }
    kani::cover!(true, "end");
    std::mem::forget(out);
}

#[kani::proof]
#[kani::unwind(20)]
fn c18_q_two_chunks_3_2() {
    two_chunks_case::<3, 2, { 1 + 2 + 4 + 2 + 3 }>()
}
#[kani::proof]
#[kani::unwind(20)]
fn c18_q_two_chunks_8_1() {
    two_chunks_case::<8, 1, { 1 + 2 + 9 + 2 + 2 }>()
}
#[kani::proof]
#[kani::unwind(20)]
fn c18_t_two_chunks_8_8() {
    two_chunks_case::<8, 8, { 1 + 2 + 9 + 2 + 9 }>()
}

/// K symbolic literals followed by one copy token with concrete (OFFSET, LEN) (MS-OVBA 2.4.1.3.19: at a
/// decompressed position <= 16 the token is offset-1 in the top 4 bits, length-3 in the low 12 bits).
fn copy_case<const K: usize, const OFF: usize, const CLEN: usize, const SLEN: usize>() {
    let lits: [u8; K] = kani::any();
    let mut s = [0u8; SLEN];
    s[0] = 1;
    let h = chunk_header(1 + K + 2);
    s[1] = h[0];
    s[2] = h[1];
    s[3] = 1u8 << K; // K literal tokens then one copy token
    let mut i = 0;
    while i < K {
        s[4 + i] = lits[i];
        i += 1;
    }
    let tok: u16 = (((OFF - 1) as u16) << 12) | (CLEN as u16 - 3);
    s[4 + K] = tok as u8;
    s[5 + K] = (tok >> 8) as u8;
    let out = decompress_stream(&s).unwrap();
    assert!(out.len() == K + CLEN, "copy token appends LEN bytes");
    i = 0;
    while i < K {
        assert!(out[i] == lits[i]);
        i += 1;
    }
    i = K;
    while i < K + CLEN {
        assert!(out[i] == out[i - OFF], "copied byte i equals the byte OFFSET positions back (overlap allowed)");
        i += 1;
    }
    kani::cover!(true, "end");
    std::mem::forget(out);
}

#[kani::proof]
#[kani::unwind(20)]
fn c18_q_copy_k1_off1_len3() {
    copy_case::<1, 1, 3, 7>()
}
#[kani::proof]
#[kani::unwind(20)]
fn c18_q_copy_k3_off2_len5() {
    copy_case::<3, 2, 5, 9>()
}
#[kani::proof]
#[kani::unwind(20)]
fn c18_q_copy_k3_off3_len3() {
    copy_case::<3, 3, 3, 9>()
}
#[kani::proof]
#[kani::unwind(24)]
fn c18_t_copy_k2_off1_len9() {
    copy_case::<2, 1, 9, 8>()
}

/// A container that does not start with the 0x01 signature byte is rejected.
#[kani::proof]
#[kani::unwind(20)]
fn c18_q_signature() {
    let b: u8 = kani::any();
    kani::assume(b != 1);
    let s = [b, 0x01, 0xB0, 0, 7];
    let r = decompress_stream(&s);
    assert!(r.is_err(), "bad container signature accepted");
    kani::cover!(true, "end");
    std::mem::forget(r);
}

#[kani::proof]
#[kani::unwind(20)]
fn c18_q_twin() {
    let s = [1u8, 0x01, 0xB0, 0, 7];
    let out = decompress_stream(&s).unwrap();
    std::mem::forget(out);
    assert!(false, "vacuity twin");
}
