// C08 — header-row option, eager formats (ods). Child module of src/ods.rs. (Derived from c08_xls.rs.)
// An `Xls` value is constructed directly (one sheet "S" holding a 2x2 range at origin (2,1) whose emptiness pattern is
// concrete and whose values are symbolic); the header row n is a shape parameter (a symbolic n makes the size of the
// re-windowed range a symbolic allocation size).
#![allow(unused_imports, dead_code)]
use super::*;
use crate::k_kcommon::*;
use std::io::Cursor;


/// Association-list model of the sheet table (`BTreeMap<String, _>` in the real struct): the overlay substitutes this
/// type for the BTreeMap of the `sheets` field (declared substitution). A BTreeMap leaf node is ~1.5 KB; with blocks that
/// large the heap model loses field sensitivity and a single lookup does not finish in 300 s. Same observable API subset.
pub(crate) struct KMap<K, V>(pub(crate) Vec<(K, V)>);
impl<K: Ord, V> KMap<K, V> {
    pub(crate) fn new() -> Self {
        KMap(Vec::new())
    }
    pub(crate) fn insert(&mut self, k: K, v: V) -> Option<V> {
        let mut i = 0;
        while i < self.0.len() {
            if self.0[i].0 == k {
                return Some(std::mem::replace(&mut self.0[i].1, v));
            }
            i += 1;
        }
        self.0.push((k, v));
        None
    }
    pub(crate) fn get<Q: ?Sized + Ord>(&self, k: &Q) -> Option<&V>
    where
        K: std::borrow::Borrow<Q>,
    {
        let mut i = 0;
        while i < self.0.len() {
            if self.0[i].0.borrow() == k {
                return Some(&self.0[i].1);
            }
            i += 1;
        }
        None
    }
    pub(crate) fn iter(&self) -> impl Iterator<Item = (&K, &V)> {
        self.0.iter().map(|(k, v)| (k, v))
    }
    pub(crate) fn len(&self) -> usize {
        self.0.len()
    }
}

const R0: u32 = 2;
const C0: u32 = 1;

fn mk(vals: &[i64; 4], used: &[bool; 4], header: HeaderRow) -> Ods<Cursor<&'static [u8]>> {
    let mut inner: Vec<Data> = Vec::with_capacity(4);
    let mut i = 0;
    while i < 4 {
        inner.push(if used[i] { Data::Int(vals[i]) } else { Data::Empty });
        i += 1;
    }
    let range = Range { start: (R0, C0), end: (R0 + 1, C0 + 1), inner };
    let mut sheets = KMap::new();
    sheets.insert(String::from("S"), (range, Range::default()));
    let mut options = OdsOptions::default();
    options.header_row = header;
    Ods {
        sheets,
        metadata: Metadata::default(),
        marker: PhantomData,
        #[cfg(feature = "picture")]
        pictures: None,
        options,
    }
}

fn header_case(n: u32, used: [bool; 4]) {
    let vals: [i64; 4] = kani::any();
    let mut x = mk(&vals, &used, HeaderRow::Row(n));
    let got = x.worksheet_range("S");
    let rg = match got {
        Ok(ref r) => r,
        Err(ref _e) => {
            assert!(false, "header row must never make the read fail");
            return;
        }
    };
    let last = R0 + 1;
    if n > last {
        assert!(rg.is_empty(), "no cell at or below the header row: empty range");
    } else {
        assert!(rg.start() == Some((n, C0)), "range starts exactly at the header row");
        assert!(rg.end() == Some((last, C0 + 1)));
        let mut r = n;
        while r <= last {
            let mut c = C0;
            while c <= C0 + 1 {
                let exp = if r >= R0 {
                    let k = ((r - R0) * 2 + (c - C0)) as usize;
                    if used[k] { DSum::Int(vals[k]) } else { DSum::Empty }
                } else {
                    DSum::Empty
                };
                match rg.get_value((r, c)) {
                    Some(d) => assert!(dsum(d) == exp, "every position at or below the header row keeps its value; rows above the data are Empty"),
                    None => assert!(false, "position inside the window missing"),
                }
                c += 1;
            }
            r += 1;
        }
        assert!(rg.get_value((n.wrapping_sub(1), C0)).is_none() || n == 0, "nothing from rows above the header row");
    }
    kani::cover!(true, "end");
    std::mem::forget(got);
    std::mem::forget(x);
}

macro_rules! hdr {
    ($name:ident, $n:expr, $used:expr) => {
        #[kani::proof]
        #[kani::unwind(8)]
        fn $name() {
            header_case($n, $used)
        }
    };
}
hdr!(c08_q_ods_row_before_data, 1, [true, true, true, true]);
hdr!(c08_q_ods_row0, 0, [true, false, false, true]);
hdr!(c08_q_ods_row_first, 2, [true, true, false, true]);
hdr!(c08_q_ods_row_inside, 3, [true, true, true, false]);
hdr!(c08_q_ods_row_after_data, 4, [true, true, true, true]);
hdr!(c08_q_ods_row_far_after, 4_000_000_000, [true, false, true, true]);
hdr!(c08_q_ods_row_max, u32::MAX, [true, true, true, true]);

/// Default option: the stored range as is. Changing the option only stores it (and can be changed back).
#[kani::proof]
#[kani::unwind(8)]
fn c08_q_ods_default_and_option_change() {
    let vals: [i64; 4] = kani::any();
    let used = [true, false, true, true];
    let mut x = mk(&vals, &used, HeaderRow::FirstNonEmptyRow);
    let n: u32 = kani::any();
    x.with_header_row(HeaderRow::Row(n));
    assert!(matches!(x.options.header_row, HeaderRow::Row(m) if m == n), "with_header_row stores the option");
    assert!(x.sheets.len() == 1, "changing the option leaves the workbook state alone");
    x.with_header_row(HeaderRow::FirstNonEmptyRow);
    let got = x.worksheet_range("S");
    match got {
        Ok(ref rg) => {
            assert!(rg.start() == Some((R0, C0)) && rg.end() == Some((R0 + 1, C0 + 1)), "default option: range starts at the first non-empty row");
            assert!(dsum(rg.get_value((R0, C0)).unwrap()) == DSum::Int(vals[0]));
            assert!(dsum(rg.get_value((R0, C0 + 1)).unwrap()) == DSum::Empty);
            assert!(dsum(rg.get_value((R0 + 1, C0 + 1)).unwrap()) == DSum::Int(vals[3]));
        }
        Err(ref _e) => assert!(false),
    }
    let unknown = x.worksheet_range("T");
    assert!(unknown.is_err(), "unknown sheet name is an error");
    kani::cover!(true, "end");
    std::mem::forget(got);
    std::mem::forget(unknown);
    std::mem::forget(x);
}

#[kani::proof]
#[kani::unwind(8)]
fn c08_q_twin_ods() {
    let vals = [1i64, 2, 3, 4];
    let mut x = mk(&vals, &[true; 4], HeaderRow::Row(3));
    let got = x.worksheet_range("S");
    std::mem::forget(got);
    std::mem::forget(x);
    assert!(false, "vacuity twin");
}
