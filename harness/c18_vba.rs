// C18 — VBA dir stream: PROJECTMODULES walk (read_modules). Child module of src/vba.rs.
// The record skeleton (ids, sizes) is concrete; module name bytes, stream name bytes, the text offset and all
// reserved/cookie bytes are symbolic. encoding_rs is stubbed by a single-byte ASCII model.
#![allow(unused_imports, dead_code)]
use super::*;

fn var_rec(out: &mut [u8; 224], p: &mut usize, id: u16, payload: &[u8]) {
    out[*p] = id as u8;
    out[*p + 1] = (id >> 8) as u8;
    let l = payload.len() as u32;
    out[*p + 2] = l as u8;
    out[*p + 3] = (l >> 8) as u8;
    out[*p + 4] = 0;
    out[*p + 5] = 0;
    let mut i = 0;
    while i < payload.len() {
        out[*p + 6 + i] = payload[i];
        i += 1;
    }
    *p += 6 + payload.len();
}

fn id_only(out: &mut [u8; 224], p: &mut usize, id: u16, skip: usize) {
    out[*p] = id as u8;
    out[*p + 1] = (id >> 8) as u8;
    *p += 2 + skip; // the skipped bytes stay symbolic
}

/// One module (N = 1) or two (N = 2): names of 2 bytes, stream names of 1 byte, offsets any u32,
/// module type procedural/document (symbolic), optional READONLY/PRIVATE records (shape flag).
fn modules_case<const N: usize>(with_flags: bool) {
    let mut s: [u8; 224] = kani::any();
    let mut p = 0usize;
    // 4 bytes skipped, u16 module count, 8 bytes skipped (PROJECTCOOKIE)
    p += 4;
    s[p] = N as u8;
    s[p + 1] = 0;
    p += 2 + 8;
    let mut names = [[0u8; 2]; 2];
    let mut snames = [0u8; 2];
    let mut offsets = [0u32; 2];
    let mut k = 0;
    while k < N {
        let nm: [u8; 2] = kani::any();
        let sn: u8 = kani::any();
        kani::assume(nm[0] >= 0x21 && nm[0] < 0x7F && nm[1] >= 0x21 && nm[1] < 0x7F && sn >= 0x21 && sn < 0x7F);
        names[k] = nm;
        snames[k] = sn;
        var_rec(&mut s, &mut p, 0x0019, &nm);
        var_rec(&mut s, &mut p, 0x0047, &[]);
        var_rec(&mut s, &mut p, 0x001A, &[sn]);
        var_rec(&mut s, &mut p, 0x0032, &[]);
        var_rec(&mut s, &mut p, 0x001C, &[]);
        var_rec(&mut s, &mut p, 0x0048, &[]);
        // MODULEOFFSET: id, 4 bytes size (skipped), u32 offset
        id_only(&mut s, &mut p, 0x0031, 4);
        let off: u32 = kani::any();
        offsets[k] = off;
        let ob = off.to_le_bytes();
        s[p] = ob[0];
        s[p + 1] = ob[1];
        s[p + 2] = ob[2];
        s[p + 3] = ob[3];
        p += 4;
        id_only(&mut s, &mut p, 0x001E, 8);
        id_only(&mut s, &mut p, 0x002C, 6);
        let doc: bool = kani::any();
        s[p] = if doc { 0x22 } else { 0x21 };
        s[p + 1] = 0;
        p += 2;
        if with_flags {
            // reserved(4) then READONLY 0x0025
            p += 4;
            s[p] = 0x25;
            s[p + 1] = 0;
            p += 2;
        }
        // reserved(4) then terminator 0x002B, then reserved(4)
        p += 4;
        s[p] = 0x2B;
        s[p + 1] = 0;
        p += 2;
        p += 4;
        k += 1;
    }
    let enc = crate::cfb::k_kcfb::cp1252_enc();
    let mut stream: &[u8] = &s[..p];
    let r = read_modules(&mut stream, &enc);
    match r {
        Ok(ref v) => {
            assert!(v.len() == N, "exactly the project's modules");
            k = 0;
            while k < N {
                let nb = v[k].name.as_bytes();
                assert!(nb.len() == 2 && nb[0] == names[k][0] && nb[1] == names[k][1], "module name as recorded");
                let sb = v[k].stream_name.as_bytes();
                assert!(sb.len() == 1 && sb[0] == snames[k], "stream name as recorded");
                assert!(v[k].text_offset == offsets[k] as usize, "module source offset as recorded (all 32 bits)");
                k += 1;
            }
            assert!(stream.is_empty(), "the walk consumes exactly the module records");
        }
        Err(ref _e) => assert!(false, "well-formed PROJECTMODULES rejected"),
    }
    kani::cover!(true, "end");
    std::mem::forget(r);
    std::mem::forget(enc);
}

#[kani::proof]
#[kani::unwind(8)]
#[kani::stub(encoding_rs::Encoding::decode, crate::k_kcommon::model_sbcs_decode)]
fn c18_q_vba_modules_1() {
    modules_case::<1>(false)
}
#[kani::proof]
#[kani::unwind(8)]
#[kani::stub(encoding_rs::Encoding::decode, crate::k_kcommon::model_sbcs_decode)]
fn c18_q_vba_modules_1_readonly() {
    modules_case::<1>(true)
}
#[kani::proof]
#[kani::unwind(8)]
#[kani::stub(encoding_rs::Encoding::decode, crate::k_kcommon::model_sbcs_decode)]
fn c18_q_vba_modules_2() {
    modules_case::<2>(false)
}

#[kani::proof]
#[kani::unwind(8)]
#[kani::stub(encoding_rs::Encoding::decode, crate::k_kcommon::model_sbcs_decode)]
fn c18_q_twin_vba() {
    modules_case::<1>(false);
    assert!(false, "vacuity twin");
}
