// C14 — column lettering. Child module of src/utils.rs.
#![allow(unused_imports, dead_code)]
use super::*;
use crate::k_kcommon::*;

/// push_column vs bijective base-26 for every column in [LO, HI) (shape = number of letters).
fn push_column_case(lo: u32, hi: u32, letters: usize) {
    let col: u32 = kani::any();
    kani::assume(col >= lo && col < hi);
    let mut s = String::with_capacity(8);
    s.push('#'); // a prefix that must be preserved
    push_column(col, &mut s);
    let mut exp = TBuf::new();
    exp.ch(b'#');
    exp.col(col, letters);
    assert!(exp.eq(s.as_bytes()), "push_column renders bijective base-26 letters");
    kani::cover!(col == hi - 1, "end");
    std::mem::forget(s);
}

#[kani::proof]
#[kani::unwind(3)]
fn c14_q_push_column_1_letter() {
    push_column_case(0, 26, 1)
}
#[kani::proof]
#[kani::unwind(4)]
fn c14_q_push_column_2_letters() {
    push_column_case(26, 702, 2)
}
#[kani::proof]
#[kani::unwind(5)]
fn c14_t_push_column_3_letters_to_xfd() {
    push_column_case(702, 16384, 3)
}
#[kani::proof]
#[kani::unwind(5)]
fn c14_t_push_column_3_letters_all() {
    push_column_case(702, 18278, 3)
}
#[kani::proof]
#[kani::unwind(6)]
fn c14_t_push_column_4_letters_u16() {
    push_column_case(18278, 65536, 4)
}

/// FTAB and FTAB_ARGC describe the same functions (equal length is a type-level fact; spot anchors).
#[kani::proof]
fn c14_q_ftab_anchors() {
    assert!(FTAB.len() == FTAB_ARGC.len());
    assert!(FTAB[4].as_bytes()[0] == b'S' && FTAB[4].len() == 3, "iftab 4 is SUM");
    assert!(FTAB[0].len() == 5 && FTAB[1].len() == 2, "COUNT, IF");
    assert!(FTAB_ARGC[15] == 1, "SIN takes one argument");
    kani::cover!(true, "end");
}

#[kani::proof]
#[kani::unwind(6)]
fn c14_q_twin_utils() {
    let mut s = String::with_capacity(8);
    push_column(30, &mut s);
    std::mem::forget(s);
    assert!(false, "vacuity twin");
}
