// C09 — serde row -> record mapping. Child module of src/de.rs.
// Ranges have a concrete shape (height, width, origin) and a concrete variant pattern; numeric payloads are symbolic.
// alloc::fmt::format is stubbed (error text is not part of the property).
#![allow(unused_imports, dead_code)]
use super::*;
use crate::{CellErrorType, Data, Range};

fn stub_format(_args: std::fmt::Arguments<'_>) -> String {
    String::new()
}

fn mk_range(r0: u32, c0: u32, h: u32, w: u32, cells: Vec<Data>) -> Range<Data> {
    let mut rg: Range<Data> = Range::new((r0, c0), (r0 + h - 1, c0 + w - 1));
    let mut i = 0usize;
    for c in cells {
        let r = (i as u32) / w;
        let k = (i as u32) % w;
        rg.set_value((r0 + r, c0 + k), c);
        i += 1;
    }
    rg
}

/// K1 accounting, no headers: H rows of two Int cells -> exactly H items in order, size_hint brackets the rest.
fn accounting_case<const H: usize>() {
    let v: [i64; 6] = kani::any();
    let mut cells = Vec::with_capacity(8);
    let mut i = 0;
    while i < 2 * H {
        cells.push(Data::Int(v[i]));
        i += 1;
    }
    let rg = mk_range(3, 2, H as u32, 2, cells);
    let mut it: RangeDeserializer<'_, Data, (i64, i64)> =
        RangeDeserializerBuilder::new().has_headers(false).from_range(&rg).unwrap();
    let mut k = 0;
    while k < H {
        let (lo, hi) = it.size_hint();
        assert!(lo <= H - k && hi.map_or(true, |x| x >= H - k), "size_hint brackets the number of items still to come");
        match it.next() {
            Some(Ok((a, b))) => assert!(a == v[2 * k] && b == v[2 * k + 1], "one item per row, in order, cells by position"),
            _ => assert!(false, "row dropped or failed"),
        }
        k += 1;
    }
    let (lo, hi) = it.size_hint();
    assert!(lo == 0 && hi.map_or(true, |x| x >= 0), "nothing left: lower bound 0");
    assert!(it.next().is_none(), "exactly one item per row");
    kani::cover!(true, "end");
    std::mem::forget(it);
    std::mem::forget(rg);
}

#[kani::proof]
#[kani::unwind(8)]
#[kani::stub(alloc::fmt::format, stub_format)]
fn c09_q_accounting_1() {
    accounting_case::<1>()
}
#[kani::proof]
#[kani::unwind(8)]
#[kani::stub(alloc::fmt::format, stub_format)]
fn c09_q_accounting_3() {
    accounting_case::<3>()
}

/// K1 with the default builder (first row = headers): H-1 items.
#[kani::proof]
#[kani::unwind(8)]
#[kani::stub(alloc::fmt::format, stub_format)]
fn c09_q_accounting_headers() {
    let v: [i64; 4] = kani::any();
    let cells = vec![
        Data::String(String::from("a")),
        Data::String(String::from("b")),
        Data::Int(v[0]),
        Data::Int(v[1]),
        Data::Int(v[2]),
        Data::Int(v[3]),
    ];
    let rg = mk_range(0, 0, 3, 2, cells);
    let mut it: RangeDeserializer<'_, Data, (i64, i64)> = RangeDeserializerBuilder::new().from_range(&rg).unwrap();
    let (lo, hi) = it.size_hint();
    assert!(lo <= 2 && hi.map_or(true, |x| x >= 2), "after the header row two items remain");
    match it.next() {
        Some(Ok((a, b))) => assert!(a == v[0] && b == v[1]),
        _ => assert!(false, "first data row"),
    }
    let (lo, hi) = it.size_hint();
    assert!(lo <= 1 && hi.map_or(true, |x| x >= 1), "one item remains");
    match it.next() {
        Some(Ok((a, b))) => assert!(a == v[2] && b == v[3]),
        _ => assert!(false, "second data row"),
    }
    let (lo, _hi) = it.size_hint();
    assert!(lo == 0);
    assert!(it.next().is_none());
    kani::cover!(true, "end");
    std::mem::forget(it);
    std::mem::forget(rg);
}

/// K2: an error cell at (row ER, col EC) of a 2x3 block at origin (4,1) fails its own record with CellError carrying the
/// error kind and the cell's absolute position; the other row is unaffected.
fn error_case<const ER: usize, const EC: usize>() {
    let v: [i64; 6] = kani::any();
    let which: u8 = kani::any();
    kani::assume(which < 3);
    let err = match which {
        0 => CellErrorType::NA,
        1 => CellErrorType::Div0,
        _ => CellErrorType::Ref,
    };
    let mut cells = Vec::with_capacity(8);
    let mut i = 0;
    while i < 6 {
        if i == ER * 3 + EC {
            cells.push(Data::Error(err.clone()));
        } else {
            cells.push(Data::Int(v[i]));
        }
        i += 1;
    }
    let rg = mk_range(4, 1, 2, 3, cells);
    let mut it: RangeDeserializer<'_, Data, (i64, i64, i64)> =
        RangeDeserializerBuilder::new().has_headers(false).from_range(&rg).unwrap();
    let mut k = 0;
    while k < 2 {
        let item = it.next();
        match item {
            Some(Ok((a, b, c))) => {
                assert!(k != ER, "the record holding the error cell must fail");
                assert!(a == v[3 * k] && b == v[3 * k + 1] && c == v[3 * k + 2], "other rows unaffected");
            }
            Some(Err(DeError::CellError { err: ref e, pos })) => {
                assert!(k == ER, "a row without error cell failed");
                assert!(*e == err, "CellError carries the cell's error kind");
                assert!(pos == (4 + ER as u32, 1 + EC as u32), "CellError carries the cell's absolute position");
            }
            _ => assert!(false, "unexpected item"),
        }
        std::mem::forget(item);
        k += 1;
    }
    kani::cover!(true, "end");
    std::mem::forget(it);
    std::mem::forget(rg);
}

#[kani::proof]
#[kani::unwind(8)]
#[kani::stub(alloc::fmt::format, stub_format)]
fn c09_q_error_r0_c0() {
    error_case::<0, 0>()
}
#[kani::proof]
#[kani::unwind(8)]
#[kani::stub(alloc::fmt::format, stub_format)]
fn c09_q_error_r1_c2() {
    error_case::<1, 2>()
}
#[kani::proof]
#[kani::unwind(8)]
#[kani::stub(alloc::fmt::format, stub_format)]
fn c09_q_error_r0_c1() {
    error_case::<0, 1>()
}

/// Two failing rows (rows 0 and 2 of three): each CellError carries its own row; the good row in between is unaffected.
#[kani::proof]
#[kani::unwind(8)]
#[kani::stub(alloc::fmt::format, stub_format)]
fn c09_q_two_error_rows() {
    let v: [i64; 2] = kani::any();
    let cells = vec![
        Data::Error(CellErrorType::NA),
        Data::Int(1),
        Data::Int(v[0]),
        Data::Int(v[1]),
        Data::Int(2),
        Data::Error(CellErrorType::Ref),
    ];
    let rg = mk_range(5, 3, 3, 2, cells);
    let mut it: RangeDeserializer<'_, Data, (i64, i64)> =
        RangeDeserializerBuilder::new().has_headers(false).from_range(&rg).unwrap();
    let a = it.next();
    let b = it.next();
    let c = it.next();
    match (&a, &b, &c) {
        (Some(Err(DeError::CellError { err: e0, pos: p0 })), Some(Ok((x, y))), Some(Err(DeError::CellError { err: e2, pos: p2 }))) => {
            assert!(*e0 == CellErrorType::NA && *p0 == (5, 3), "first failing row: own kind and position");
            assert!(*x == v[0] && *y == v[1], "row between two failing rows unaffected");
            assert!(*e2 == CellErrorType::Ref && *p2 == (7, 4), "second failing row: own kind and absolute position");
        }
        _ => assert!(false, "Err, Ok, Err expected"),
    }
    assert!(it.next().is_none());
    kani::cover!(true, "end");
    std::mem::forget((a, b, c));
    std::mem::forget(it);
    std::mem::forget(rg);
}

/// Header name seen through serde as a borrowed str: keeps its first byte (no String allocation).
struct KKey(u8);
impl<'de> Deserialize<'de> for KKey {
    fn deserialize<D: Deserializer<'de>>(d: D) -> Result<Self, D::Error> {
        struct V;
        impl<'de> Visitor<'de> for V {
            type Value = KKey;
            fn expecting(&self, f: &mut fmt::Formatter) -> fmt::Result {
                f.write_str("key")
            }
            fn visit_str<E: de::Error>(self, s: &str) -> Result<KKey, E> {
                Ok(KKey(if s.is_empty() { 0 } else { s.as_bytes()[0] }))
            }
        }
        d.deserialize_str(V)
    }
}

/// Map access by header name: a record type that collects (first byte of key, value) pairs through MapAccess.
struct KPairs {
    n: usize,
    k: [u8; 3],
    v: [i64; 3],
}
impl<'de> Deserialize<'de> for KPairs {
    fn deserialize<D: Deserializer<'de>>(d: D) -> Result<Self, D::Error> {
        struct V;
        impl<'de> Visitor<'de> for V {
            type Value = KPairs;
            fn expecting(&self, f: &mut fmt::Formatter) -> fmt::Result {
                f.write_str("map")
            }
            fn visit_map<A: de::MapAccess<'de>>(self, mut m: A) -> Result<KPairs, A::Error> {
                let mut out = KPairs { n: 0, k: [0; 3], v: [0; 3] };
                while out.n < 3 {
                    match m.next_key::<KKey>()? {
                        Some(key) => {
                            out.k[out.n] = key.0;
                            out.v[out.n] = m.next_value::<i64>()?;
                            out.n += 1;
                        }
                        None => break,
                    }
                }
                Ok(out)
            }
        }
        d.deserialize_map(V)
    }
}

/// Headers [a, b, c]; selection (shape): reversed pair [c, a] / all. Fields are bound by header name, empty cells absent.
fn map_case(sel: u8) {
    let v: [i64; 3] = kani::any();
    let cells = vec![
        Data::String(String::from("a")),
        Data::String(String::from("b")),
        Data::String(String::from("c")),
        Data::Int(v[0]),
        Data::Empty,
        Data::Int(v[2]),
    ];
    let rg = mk_range(1, 1, 2, 3, cells);
    let r: Result<RangeDeserializer<'_, Data, KPairs>, DeError> = if sel == 0 {
        RangeDeserializerBuilder::new().from_range(&rg)
    } else {
        RangeDeserializerBuilder::with_headers(&["c", "a"]).from_range(&rg)
    };
    let mut it = match r {
        Ok(it) => it,
        Err(ref _e) => {
            assert!(false, "existing headers rejected");
            return;
        }
    };
    match it.next() {
        Some(Ok(p)) => {
            assert!(p.n == 2, "empty cells are absent from the map");
            if sel == 0 {
                assert!(p.k[0] == b'a' && p.v[0] == v[0] && p.k[1] == b'c' && p.v[1] == v[2], "fields bound by header name");
            } else {
                assert!(p.k[0] == b'c' && p.v[0] == v[2] && p.k[1] == b'a' && p.v[1] == v[0], "selected headers in any order bind the right columns");
            }
        }
        _ => assert!(false, "map record"),
    }
    kani::cover!(true, "end");
    std::mem::forget(it);
    std::mem::forget(rg);
}

#[kani::proof]
#[kani::unwind(8)]
#[kani::stub(alloc::fmt::format, stub_format)]
fn c09_t_map_all_headers() {
    map_case(0)
}
#[kani::proof]
#[kani::unwind(8)]
#[kani::stub(alloc::fmt::format, stub_format)]
fn c09_x_map_selected_reversed() {
    map_case(1)
}

/// K3: cell -> primitive conversions of DataDeserializer (documented table), one cell, symbolic payloads.
#[kani::proof]
#[kani::unwind(8)]
#[kani::stub(alloc::fmt::format, stub_format)]
fn c09_q_conversions_int_float() {
    let i: i64 = kani::any();
    let f: f64 = kani::any();
    kani::assume(f.is_finite() && f > -1.0e15 && f < 1.0e15);
    let pos = (1u32, 1u32);
    let di = Data::Int(i);
    let df = Data::Float(f);
    assert!(i64::deserialize(di.to_cell_deserializer(pos)).ok() == Some(i), "Int -> i64");
    assert!(f64::deserialize(di.to_cell_deserializer(pos)).ok() == Some(i as f64), "Int -> f64 cast");
    assert!(i64::deserialize(df.to_cell_deserializer(pos)).ok() == Some(f as i64), "Float -> i64 cast");
    assert!(u8::deserialize(di.to_cell_deserializer(pos)).ok() == Some(i as u8), "Int -> u8 cast");
    assert!(bool::deserialize(di.to_cell_deserializer(pos)).ok() == Some(i != 0), "Int -> bool");
    assert!(bool::deserialize(df.to_cell_deserializer(pos)).ok() == Some(f != 0.0), "Float -> bool");
    assert!(Option::<i64>::deserialize(di.to_cell_deserializer(pos)).ok() == Some(Some(i)), "Int -> Some");
    kani::cover!(i < 0, "end");
}

#[kani::proof]
#[kani::unwind(8)]
#[kani::stub(alloc::fmt::format, stub_format)]
fn c09_q_conversions_empty_bool() {
    let pos = (1u32, 1u32);
    let e = Data::Empty;
    let b: bool = kani::any();
    let db = Data::Bool(b);
    assert!(Option::<i64>::deserialize(e.to_cell_deserializer(pos)).ok() == Some(None), "Empty -> None");
    assert!(bool::deserialize(e.to_cell_deserializer(pos)).ok() == Some(false), "Empty -> false");
    let s = String::deserialize(e.to_cell_deserializer(pos));
    assert!(matches!(s, Ok(ref t) if t.is_empty()), "Empty -> empty string");
    assert!(bool::deserialize(db.to_cell_deserializer(pos)).ok() == Some(b), "Bool -> bool");
    let bad = i64::deserialize(e.to_cell_deserializer(pos));
    assert!(bad.is_err(), "Empty is not a number");
    let ts = Data::String(String::from("true"));
    let fs = Data::String(String::from("FALSE"));
    assert!(bool::deserialize(ts.to_cell_deserializer(pos)).ok() == Some(true), "\"true\" -> true");
    assert!(bool::deserialize(fs.to_cell_deserializer(pos)).ok() == Some(false), "\"FALSE\" -> false");
    kani::cover!(b, "end");
    std::mem::forget((s, bad, ts, fs));
}

/// K4 header binding: header row ["a", " b "]; the selection is a shape parameter: [a,b], [b,a], [b, missing].
fn header_selection_case(sel: u8) {
    let v: [i64; 2] = kani::any();
    let cells = vec![Data::String(String::from("a")), Data::String(String::from(" b ")), Data::Int(v[0]), Data::Int(v[1])];
    let rg = mk_range(0, 0, 2, 2, cells);
    let hs: [&str; 2] = match sel {
        0 => ["a", "b"],
        1 => ["b", "a"],
        _ => ["b", "zz"],
    };
    let r: Result<RangeDeserializer<'_, Data, (i64, i64)>, DeError> =
        RangeDeserializerBuilder::with_headers(&hs).from_range(&rg);
    match r {
        Ok(mut it) => {
            assert!(sel < 2, "a missing header must be HeaderNotFound");
            match it.next() {
                Some(Ok((x, y))) => {
                    if sel == 0 {
                        assert!(x == v[0] && y == v[1], "columns in the requested order");
                    } else {
                        assert!(x == v[1] && y == v[0], "columns in the requested order (swapped)");
                    }
                }
                _ => assert!(false, "data row"),
            }
            assert!(it.next().is_none());
            std::mem::forget(it);
        }
        Err(DeError::HeaderNotFound(ref _h)) => assert!(sel == 2, "existing headers reported missing"),
        Err(ref _e) => assert!(false, "wrong error"),
    }
    kani::cover!(true, "end");
    std::mem::forget(rg);
}

#[kani::proof]
#[kani::unwind(8)]
#[kani::stub(alloc::fmt::format, stub_format)]
fn c09_x_header_selection_ab() {
    header_selection_case(0)
}
#[kani::proof]
#[kani::unwind(8)]
#[kani::stub(alloc::fmt::format, stub_format)]
fn c09_x_header_selection_ba() {
    header_selection_case(1)
}
#[kani::proof]
#[kani::unwind(8)]
#[kani::stub(alloc::fmt::format, stub_format)]
fn c09_x_header_selection_missing() {
    header_selection_case(2)
}

#[kani::proof]
#[kani::unwind(8)]
#[kani::stub(alloc::fmt::format, stub_format)]
fn c09_q_twin() {
    let rg = mk_range(0, 0, 1, 1, vec![Data::Int(5)]);
    let mut it: RangeDeserializer<'_, Data, (i64,)> = RangeDeserializerBuilder::new().has_headers(false).from_range(&rg).unwrap();
    let x = it.next();
    std::mem::forget(x);
    std::mem::forget(it);
    std::mem::forget(rg);
    assert!(false, "vacuity twin");
}
