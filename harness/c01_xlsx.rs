// C01 — xlsx cell position decoding. Child module of src/xlsx/mod.rs.
#![allow(unused_imports, dead_code)]
use super::*;
use crate::k_kcommon::*;

/// L letters (either case, symbolic) followed by D digits (symbolic) -> expected 0-based (row, Some(col)).
/// Reference: letters are bijective base-26, digits decimal (leading zeros allowed), both minus one.
fn a1_case<const L: usize, const D: usize, const N: usize>() {
    let mut s = [0u8; N];
    let mut col: u64 = 0;
    let mut i = 0;
    while i < L {
        let l: u8 = kani::any();
        kani::assume(l < 26);
        let lower: bool = kani::any();
        s[i] = if lower { b'a' + l } else { b'A' + l };
        col = col * 26 + l as u64 + 1;
        i += 1;
    }
    let mut row: u64 = 0;
    while i < N {
        let d: u8 = kani::any();
        kani::assume(d < 10);
        s[i] = b'0' + d;
        row = row * 10 + d as u64;
        i += 1;
    }
    let got = get_row_and_optional_column(&s);
    if row == 0 {
        assert!(got.is_err(), "row 0 / missing row is rejected");
    } else {
        match got {
            Ok((r, c)) => {
                assert!(r as u64 == row - 1, "row is the decimal number minus one");
                if L == 0 {
                    assert!(c.is_none(), "no letters: no column");
                } else {
                    assert!(c.map(|x| x as u64) == Some(col - 1), "column is bijective base-26 minus one");
                }
            }
            Err(ref _e) => assert!(false, "well-formed cell name rejected"),
        }
    }
    // the two wrappers agree
    match get_row(&s) {
        Ok(r) => assert!(row != 0 && r as u64 == row - 1, "get_row agrees"),
        Err(ref _e) => assert!(row == 0),
    }
    match get_row_column(&s) {
        Ok((r, c)) => assert!(L > 0 && row != 0 && r as u64 == row - 1 && c as u64 == col - 1, "get_row_column agrees"),
        Err(ref _e) => assert!(L == 0 || row == 0, "get_row_column rejects only names without row or column"),
    }
    kani::cover!(row > 1, "end");
    std::mem::forget(got);
}

macro_rules! a1 {
    ($name:ident, $l:expr, $d:expr) => {
        #[kani::proof]
        #[kani::unwind(13)]
        fn $name() {
            a1_case::<$l, $d, { $l + $d }>()
        }
    };
}
a1!(c01_q_a1_l0_d1, 0, 1);
a1!(c01_q_a1_l1_d1, 1, 1);
a1!(c01_q_a1_l1_d3, 1, 3);
a1!(c01_t_a1_l2_d2, 2, 2);
a1!(c01_t_a1_l3_d1, 3, 1);
a1!(c01_x_a1_l2_d5, 2, 5);
a1!(c01_x_a1_l3_d7, 3, 7);
a1!(c01_x_a1_l0_d7, 0, 7);
a1!(c01_x_a1_l1_d7, 1, 7);
a1!(c01_x_a1_l2_d7, 2, 7);
a1!(c01_x_a1_l3_d4, 3, 4);
a1!(c01_x_a1_l3_d5, 3, 5);
a1!(c01_x_a1_l3_d6, 3, 6);
a1!(c01_x_a1_l1_d9, 1, 9);

/// Accept/reject boundary on arbitrary bytes of length N: accepted iff [A-Za-z]*[0-9]+ with a non-zero row; never a panic.
fn a1_arbitrary<const N: usize>() {
    let s: [u8; N] = kani::any();
    let mut i = 0;
    let mut col: u64 = 0;
    while i < N && s[i].is_ascii_alphabetic() {
        col = col * 26 + (s[i].to_ascii_uppercase() - b'A') as u64 + 1;
        i += 1;
    }
    let nl = i;
    let mut row: u64 = 0;
    while i < N && s[i].is_ascii_digit() {
        row = row * 10 + (s[i] - b'0') as u64;
        i += 1;
    }
    let ok = i == N && i > nl && row != 0;
    let got = get_row_and_optional_column(&s);
    match got {
        Ok((r, c)) => {
            assert!(ok, "malformed cell name accepted");
            assert!(r as u64 == row - 1);
            assert!(c.map(|x| x as u64) == if nl == 0 { None } else { Some(col - 1) });
        }
        Err(ref _e) => assert!(!ok, "well-formed cell name rejected"),
    }
    kani::cover!(ok && nl > 0, "end");
    std::mem::forget(got);
}

#[kani::proof]
#[kani::unwind(6)]
fn c01_q_a1_arbitrary_2() {
    a1_arbitrary::<2>()
}
#[kani::proof]
#[kani::unwind(6)]
fn c01_q_a1_arbitrary_3() {
    a1_arbitrary::<3>()
}
#[kani::proof]
#[kani::unwind(7)]
fn c01_q_a1_arbitrary_4() {
    a1_arbitrary::<4>()
}
#[kani::proof]
#[kani::unwind(8)]
fn c01_q_a1_arbitrary_5() {
    a1_arbitrary::<5>()
}

// get_dimension (split + collect over symbolic bytes) does not fit 20 GB / 15 min in any shape tried (every byte may be the
// ':' separator as far as symbolic execution can tell): not admitted, listed as outside the claim.

#[kani::proof]
#[kani::unwind(9)]
fn c01_t_a1_arbitrary_6() {
    a1_arbitrary::<6>()
}
#[kani::proof]
#[kani::unwind(10)]
fn c01_x_a1_arbitrary_7() {
    a1_arbitrary::<7>()
}
#[kani::proof]
#[kani::unwind(11)]
fn c01_x_a1_arbitrary_8() {
    a1_arbitrary::<8>()
}

#[kani::proof]
#[kani::unwind(6)]
fn c01_q_twin() {
    let s = [b'B', b'7'];
    let got = get_row_and_optional_column(&s);
    std::mem::forget(got);
    assert!(false, "vacuity twin");
}
