// C03 — xlsb cell records. Child module of src/xlsb/cells_reader.rs.
// Stream shape: [BrtRowHdr(row)] [optional ignorable record] [one cell record of kind K]; the record ids and lengths
// (structure) are concrete per harness, row / column / style / value bytes are symbolic.
#![allow(unused_imports, dead_code)]
use super::*;
use crate::k_kcommon::*;
use crate::xlsb::k_c03_xlsb::{mem_iter, remaining};

fn reader<'a>(
    stream: &'a [u8],
    formats: &'a [CellFormat],
    strings: &'a [String],
    is_1904: bool,
) -> XlsbCellsReader<'a> {
    XlsbCellsReader {
        iter: mem_iter(stream),
        formats,
        strings,
        extern_sheets: &[],
        metadata_names: &[],
        typ: 0,
        row: 0,
        is_1904,
        dimensions: Dimensions { start: (0, 0), end: (0, 0) },
        buf: Vec::with_capacity(32),
    }
}

fn any_formats3() -> [CellFormat; 3] {
    [any_format(), any_format(), any_format()]
}

/// Builds [0x00, 4, row(4)] ++ ignorable ++ [typ, len, col(4), style(3), flags(1), value...]
/// VAL = number of value bytes; IGN: 0 none, 1 = BrtCellBlank (0x01, 8 bytes), 2 = a two-byte-id record (0xAA 0x03, 2 bytes)
fn cell_case<const TYP: u8, const VAL: usize, const IGN: u8, const TOT: usize>(
    expect: fn(&[u8], Option<CellFormat>, bool, &[usize; 3]) -> Option<DSum>,
) {
    let mut s: [u8; TOT] = kani::any();
    let row: u32 = kani::any();
    kani::assume(row <= 0x000F_FFFF);
    let rb = row.to_le_bytes();
    s[0] = 0x00;
    s[1] = 4;
    s[2] = rb[0];
    s[3] = rb[1];
    s[4] = rb[2];
    s[5] = rb[3];
    let mut p = 6;
    if IGN == 1 {
        s[p] = 0x01;
        s[p + 1] = 8;
        p += 10;
    } else if IGN == 2 {
        s[p] = 0xAA;
        s[p + 1] = 0x03;
        s[p + 2] = 2;
        p += 5;
    }
    s[p] = TYP;
    s[p + 1] = (8 + VAL) as u8;
    let body = p + 2;
    let formats = any_formats3();
    let l0: usize = kani::any();
    let l1: usize = kani::any();
    let l2: usize = kani::any();
    kani::assume(l0 <= 2 && l1 <= 2 && l2 <= 2);
    let src = "xy";
    let strings = [String::from(&src[..l0]), String::from(&src[..l1]), String::from(&src[..l2])];
    let lens = [l0, l1, l2];
    let is_1904: bool = kani::any();
    let col = u32::from_le_bytes([s[body], s[body + 1], s[body + 2], s[body + 3]]);
    let style = u32::from_le_bytes([s[body + 4], s[body + 5], s[body + 6], 0]) as usize;
    let mut val = [0u8; 16];
    let mut i = 0;
    while i < VAL {
        val[i] = s[body + 8 + i];
        i += 1;
    }
    let exp = expect(&val, fmt_at(&formats, style), is_1904, &lens);
    if exp.is_none() {
        // outside this harness's claim (unknown error code, shared-string index beyond the table: C06)
        return;
    }
    let mut rd = reader(&s, &formats, &strings, is_1904);
    let got = rd.next_cell();
    match exp {
        Some(e) => match got {
            Ok(Some(ref c)) => {
                assert!(c.get_position() == (row, col), "cell at (row of the last BrtRowHdr, column of the record)");
                assert!(num_eq(dsum_ref(c.get_value()), e), "cell value equals what the record stores");
            }
            Ok(None) => assert!(false, "cell record dropped"),
            Err(ref _e) => assert!(false, "well-formed cell record rejected"),
        },
        None => (), // reference says: outside the harness's claim for this value (e.g. unknown error code)
    }
    kani::cover!(exp.is_some(), "end");
    std::mem::forget(got);
    std::mem::forget(rd);
    std::mem::forget(strings);
}

/// Numerically-equal comparison: Int(n) and Float(n as f64) are the same stored number (xlsb renders RK
/// integers with the x100 flag as floats where BIFF8 keeps exact multiples as Int).
fn num_eq(a: DSum, b: DSum) -> bool {
    match (a, b) {
        (DSum::Int(x), DSum::Float(y)) | (DSum::Float(y), DSum::Int(x)) => (x as f64).to_bits() == y,
        _ => a == b,
    }
}

fn exp_real(v: &[u8], f: Option<CellFormat>, is_1904: bool, _l: &[usize; 3]) -> Option<DSum> {
    let bits = u64::from_le_bytes([v[0], v[1], v[2], v[3], v[4], v[5], v[6], v[7]]);
    Some(wrap_f(bits, f, is_1904))
}
fn exp_bool(v: &[u8], _f: Option<CellFormat>, _d: bool, _l: &[usize; 3]) -> Option<DSum> {
    Some(DSum::Bool(v[0] != 0))
}
fn exp_err(v: &[u8], _f: Option<CellFormat>, _d: bool, _l: &[usize; 3]) -> Option<DSum> {
    if matches!(v[0], 0x00 | 0x07 | 0x0F | 0x17 | 0x1D | 0x24 | 0x2A | 0x2B) {
        Some(DSum::Err(v[0]))
    } else {
        None
    }
}
fn exp_isst(v: &[u8], _f: Option<CellFormat>, _d: bool, l: &[usize; 3]) -> Option<DSum> {
    let i = u32::from_le_bytes([v[0], v[1], v[2], v[3]]) as usize;
    if i < 3 {
        Some(DSum::Str(l[i]))
    } else {
        None // out-of-range index: hostile input (C06)
    }
}
/// RK integer flavours (fInt = 1): value decoded as in BIFF8; typed DateTime when the style is a date format.
fn exp_rk_int(v: &[u8], f: Option<CellFormat>, is_1904: bool, _l: &[usize; 3]) -> Option<DSum> {
    let raw = u32::from_le_bytes([v[0], v[1], v[2], v[3]]);
    if raw & 2 == 0 {
        return None;
    }
    let n = ((raw as i32) >> 2) as i64;
    if raw & 1 != 0 {
        if n % 100 != 0 {
            return None; // fractional x100 values involve an f64 division: thorough tier
        }
        Some(wrap_i(n / 100, f, is_1904))
    } else {
        Some(wrap_i(n, f, is_1904))
    }
}
fn exp_rk_float(v: &[u8], f: Option<CellFormat>, is_1904: bool, _l: &[usize; 3]) -> Option<DSum> {
    let raw = u32::from_le_bytes([v[0], v[1], v[2], v[3]]);
    if raw & 3 != 0 {
        return None;
    }
    Some(wrap_f(((raw & 0xFFFF_FFFC) as u64) << 32, f, is_1904))
}

macro_rules! cell {
    ($name:ident, $typ:expr, $val:expr, $ign:expr, $exp:ident) => {
        #[kani::proof]
        #[kani::unwind(20)]
        fn $name() {
            cell_case::<$typ, $val, $ign, { 6 + (if $ign == 1 { 10 } else if $ign == 2 { 5 } else { 0 }) + 2 + 8 + $val }>($exp)
        }
    };
}
cell!(c03_q_cell_real, 0x05, 8, 0, exp_real);
cell!(c03_q_fmla_num, 0x09, 8, 0, exp_real);
cell!(c03_q_cell_bool, 0x04, 1, 0, exp_bool);
cell!(c03_q_fmla_bool, 0x0A, 1, 0, exp_bool);
cell!(c03_q_cell_error, 0x03, 1, 0, exp_err);
cell!(c03_q_fmla_error, 0x0B, 1, 0, exp_err);
cell!(c03_q_cell_isst, 0x07, 4, 0, exp_isst);
cell!(c03_q_cell_rk_int, 0x02, 4, 0, exp_rk_int);
cell!(c03_q_cell_rk_float, 0x02, 4, 0, exp_rk_float);
cell!(c03_q_cell_real_after_blank, 0x05, 8, 1, exp_real);
cell!(c03_q_cell_bool_after_2byte_id, 0x04, 1, 2, exp_bool);
cell!(c03_t_cell_isst_after_blank, 0x07, 4, 1, exp_isst);
cell!(c03_t_cell_rk_int_after_2byte_id, 0x02, 4, 2, exp_rk_int);

/// Inline / formula strings (BrtCellSt 0x06, BrtFmlaString 0x08): cch concrete (shape), characters symbolic.
fn string_case<const TYP: u8, const CCH: usize, const TOT: usize>() {
    let mut s: [u8; TOT] = kani::any();
    let row: u32 = kani::any();
    kani::assume(row <= 0x000F_FFFF);
    let rb = row.to_le_bytes();
    s[0] = 0x00;
    s[1] = 4;
    s[2] = rb[0];
    s[3] = rb[1];
    s[4] = rb[2];
    s[5] = rb[3];
    s[6] = TYP;
    s[7] = (8 + 4 + 2 * CCH) as u8;
    s[16] = CCH as u8;
    s[17] = 0;
    s[18] = 0;
    s[19] = 0;
    let mut i = 0;
    while i < CCH {
        kani::assume(s[20 + 2 * i] >= 0x20 && s[20 + 2 * i] < 0x7F);
        s[21 + 2 * i] = 0;
        i += 1;
    }
    let col = u32::from_le_bytes([s[8], s[9], s[10], s[11]]);
    let formats: [CellFormat; 0] = [];
    let strings: [String; 0] = [];
    let mut rd = reader(&s, &formats, &strings, false);
    let got = rd.next_cell();
    match got {
        Ok(Some(ref c)) => {
            assert!(c.get_position() == (row, col), "string cell position");
            match c.get_value() {
                DataRef::String(t) => {
                    let b = t.as_bytes();
                    assert!(b.len() == CCH, "string length");
                    i = 0;
                    while i < CCH {
                        assert!(b[i] == s[20 + 2 * i], "string characters");
                        i += 1;
                    }
                }
                _ => assert!(false, "string record not a String"),
            }
        }
        _ => assert!(false, "string cell dropped or rejected"),
    }
    kani::cover!(true, "end");
    std::mem::forget(got);
    std::mem::forget(rd);
}

#[kani::proof]
#[kani::unwind(20)]
#[kani::stub(encoding_rs::Encoding::decode, crate::k_kcommon::model_utf16_decode)]
fn c03_q_cell_st_2() {
    string_case::<0x06, 2, 24>()
}
#[kani::proof]
#[kani::unwind(20)]
#[kani::stub(encoding_rs::Encoding::decode, crate::k_kcommon::model_utf16_decode)]
fn c03_q_fmla_string_1() {
    string_case::<0x08, 1, 22>()
}

/// Two cells under one row header, then a new row header and a third cell, then BrtEndSheetData.
#[kani::proof]
#[kani::unwind(5)]
fn c03_x_two_rows() {
    let mut s: [u8; 48] = kani::any();
    let r1: u32 = kani::any();
    let r2: u32 = kani::any();
    kani::assume(r1 <= 0xFFFFF && r2 <= 0xFFFFF);
    let a = r1.to_le_bytes();
    let b = r2.to_le_bytes();
    // row hdr 1
    s[0] = 0;
    s[1] = 4;
    s[2] = a[0];
    s[3] = a[1];
    s[4] = a[2];
    s[5] = a[3];
    // bool cell at 6..17 (2 + 9)
    s[6] = 0x04;
    s[7] = 9;
    // bool cell at 17..28
    s[17] = 0x04;
    s[18] = 9;
    // row hdr 2 at 28..34
    s[28] = 0;
    s[29] = 4;
    s[30] = b[0];
    s[31] = b[1];
    s[32] = b[2];
    s[33] = b[3];
    // bool cell at 34..45
    s[34] = 0x04;
    s[35] = 9;
    // end sheet data
    s[45] = 0x92;
    s[46] = 0x01;
    s[47] = 0;
    let formats: [CellFormat; 0] = [];
    let strings: [String; 0] = [];
    let mut rd = reader(&s, &formats, &strings, false);
    let c1 = rd.next_cell();
    let c2 = rd.next_cell();
    let c3 = rd.next_cell();
    let c4 = rd.next_cell();
    match (&c1, &c2, &c3, &c4) {
        (Ok(Some(x)), Ok(Some(y)), Ok(Some(z)), Ok(None)) => {
            assert!(x.get_position() == (r1, u32::from_le_bytes([s[8], s[9], s[10], s[11]])));
            assert!(y.get_position() == (r1, u32::from_le_bytes([s[19], s[20], s[21], s[22]])), "second cell keeps the row of the header");
            assert!(z.get_position() == (r2, u32::from_le_bytes([s[36], s[37], s[38], s[39]])), "new row header takes effect");
            assert!(dsum_ref(y.get_value()) == DSum::Bool(s[27] != 0));
        }
        _ => assert!(false, "three cells then end of sheet expected"),
    }
    kani::cover!(r1 != r2, "end");
    std::mem::forget((c1, c2, c3, c4));
    std::mem::forget(rd);
}

/// Quick variant: one cell, a new row header, a second cell.
#[kani::proof]
#[kani::unwind(5)]
fn c03_x_row_change() {
    let mut s: [u8; 34] = kani::any();
    let r1: u32 = kani::any();
    let r2: u32 = kani::any();
    kani::assume(r1 <= 0xFFFFF && r2 <= 0xFFFFF);
    let a = r1.to_le_bytes();
    let b = r2.to_le_bytes();
    s[0] = 0;
    s[1] = 4;
    s[2] = a[0];
    s[3] = a[1];
    s[4] = a[2];
    s[5] = a[3];
    s[6] = 0x04;
    s[7] = 9;
    s[17] = 0;
    s[18] = 4;
    s[19] = b[0];
    s[20] = b[1];
    s[21] = b[2];
    s[22] = b[3];
    s[23] = 0x04;
    s[24] = 9;
    let formats: [CellFormat; 0] = [];
    let strings: [String; 0] = [];
    let mut rd = reader(&s, &formats, &strings, false);
    let c1 = rd.next_cell();
    let c2 = rd.next_cell();
    match (&c1, &c2) {
        (Ok(Some(x)), Ok(Some(y))) => {
            assert!(x.get_position() == (r1, u32::from_le_bytes([s[8], s[9], s[10], s[11]])));
            assert!(y.get_position() == (r2, u32::from_le_bytes([s[25], s[26], s[27], s[28]])), "new row header takes effect");
            assert!(dsum_ref(y.get_value()) == DSum::Bool(s[33] != 0));
        }
        _ => assert!(false, "two cells expected"),
    }
    kani::cover!(r1 != r2, "end");
    std::mem::forget((c1, c2));
    std::mem::forget(rd);
}

#[kani::proof]
#[kani::unwind(20)]
fn c03_q_twin_cells() {
    let s = [0u8, 4, 1, 0, 0, 0, 0x04, 9, 2, 0, 0, 0, 0, 0, 0, 0, 1];
    let formats: [CellFormat; 0] = [];
    let strings: [String; 0] = [];
    let mut rd = reader(&s, &formats, &strings, false);
    let got = rd.next_cell();
    std::mem::forget(got);
    std::mem::forget(rd);
    assert!(false, "vacuity twin");
}
