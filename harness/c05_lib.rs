// C05 — Range stays a consistent rectangle. Child module of src/lib.rs (sees Range's private fields).
// All harnesses use Range<usize> (CellType is implemented for usize in the crate): default value 0.
// One inductive step per harness: arbitrary pre-state satisfying the representation invariant
//   I(r): inner.len()==0  or  (start<=end componentwise and inner.len()==height*width)
// one operation, then I(r') and the operation's post-condition.
#![allow(unused_imports, dead_code)]
use super::*;

const MAXD: usize = 5;

fn any_origin() -> (u32, u32) {
    let r0: u32 = kani::any();
    let c0: u32 = kani::any();
    kani::assume(r0 >= 4 && r0 <= u32::MAX - 16);
    kani::assume(c0 >= 4 && c0 <= u32::MAX - 16);
    (r0, c0)
}

/// Arbitrary-content H x W range (pre-state satisfying I). The origin is a *shape parameter* (concrete per
/// harness): with a symbolic origin CBMC cannot fold `end - start` and every size in set_value/range becomes a
/// symbolic allocation size (measured: unwinding failures and >8 GB). Origins used: see ORIGINS below.
fn any_range_at<const H: usize, const W: usize>(r0: u32, c0: u32) -> (Range<usize>, (u32, u32), [[usize; MAXD]; MAXD]) {
    let mut old = [[0usize; MAXD]; MAXD];
    let mut inner: Vec<usize> = Vec::with_capacity(H * W);
    let mut i = 0;
    while i < H {
        let mut j = 0;
        while j < W {
            let v: usize = kani::any();
            old[i][j] = v;
            inner.push(v);
            j += 1;
        }
        i += 1;
    }
    let rg = Range {
        start: (r0, c0),
        end: (r0 + H as u32 - 1, c0 + W as u32 - 1),
        inner,
    };
    (rg, (r0, c0), old)
}

fn any_range<const H: usize, const W: usize>() -> (Range<usize>, (u32, u32), [[usize; MAXD]; MAXD]) {
    any_range_at::<H, W>(7, 3)
}

fn invariant(r: &Range<usize>) -> bool {
    r.inner.is_empty()
        || (r.start.0 <= r.end.0
            && r.start.1 <= r.end.1
            && r.inner.len() == ((r.end.0 - r.start.0 + 1) as usize) * ((r.end.1 - r.start.1 + 1) as usize))
}

// ---------------------------------------------------------------- K1 constructors
#[kani::proof]
#[kani::unwind(12)]
fn c05_q_new() {
    let (r0, c0) = any_origin();
    let h: u32 = kani::any();
    let w: u32 = kani::any();
    kani::assume(h >= 1 && h <= 3 && w >= 1 && w <= 3);
    let rg: Range<usize> = Range::new((r0, c0), (r0 + h - 1, c0 + w - 1));
    assert!(invariant(&rg), "new establishes the invariant");
    assert!(rg.inner.len() == (h * w) as usize, "new holds height x width cells");
    assert!(rg.start() == Some((r0, c0)) && rg.end() == Some((r0 + h - 1, c0 + w - 1)));
    assert!(rg.get_size() == (h as usize, w as usize));
    let mut i = 0;
    while i < (h * w) as usize {
        assert!(rg.inner[i] == 0, "new fills with the default value");
        i += 1;
    }
    kani::cover!(h == 3 && w == 2, "end");
    std::mem::forget(rg);
}

#[kani::proof]
fn c05_q_empty() {
    let rg: Range<usize> = Range::empty();
    assert!(invariant(&rg));
    assert!(rg.is_empty() && rg.start().is_none() && rg.end().is_none());
    assert!(rg.get_size() == (0, 0) && rg.width() == 0 && rg.height() == 0);
    assert!(rg.get((0, 0)).is_none() && rg.get_value((0, 0)).is_none());
    let mut rows = rg.rows();
    assert!(rows.next().is_none(), "empty range has no rows");
    let mut cells = rg.cells();
    assert!(cells.next().is_none());
    let mut used = rg.used_cells();
    assert!(used.next().is_none());
    kani::cover!(true, "end");
}

// ---------------------------------------------------------------- K2 from_sparse
/// N cells (shape), sorted by row, bounding box at most 3x3, positions and values symbolic.
fn from_sparse_case<const N: usize>() {
    let mut pr = [0u32; N];
    let mut pc = [0u32; N];
    let mut pv = [0usize; N];
    let mut cells: Vec<Cell<usize>> = Vec::with_capacity(N);
    let mut i = 0;
    while i < N {
        pr[i] = kani::any();
        pc[i] = kani::any();
        pv[i] = kani::any();
        if i > 0 {
            kani::assume(pr[i] >= pr[i - 1]);
        }
        cells.push(Cell::new((pr[i], pc[i]), pv[i]));
        i += 1;
    }
    let r0 = pr[0];
    let r1 = pr[N - 1];
    kani::assume(r1 - r0 <= 2);
    let mut c0 = u32::MAX;
    let mut c1 = 0;
    i = 0;
    while i < N {
        if pc[i] < c0 {
            c0 = pc[i];
        }
        if pc[i] > c1 {
            c1 = pc[i];
        }
        i += 1;
    }
    kani::assume(c1 - c0 <= 2);
    let rg = Range::from_sparse(cells);
    assert!(invariant(&rg), "from_sparse establishes the invariant");
    assert!(rg.start() == Some((r0, c0)), "tight bounding box: start");
    assert!(rg.end() == Some((r1, c1)), "tight bounding box: end");
    let w = (c1 - c0 + 1) as usize;
    let h = (r1 - r0 + 1) as usize;
    assert!(rg.inner.len() == h * w);
    // every position of the box: value of the last cell given for it, default if none
    let mut a = 0;
    while a < h {
        let mut b = 0;
        while b < w {
            let mut exp = 0usize;
            let mut k = 0;
            while k < N {
                if pr[k] == r0 + a as u32 && pc[k] == c0 + b as u32 {
                    exp = pv[k];
                }
                k += 1;
            }
            assert!(rg.inner[a * w + b] == exp, "from_sparse places every cell at its position, default elsewhere");
            b += 1;
        }
        a += 1;
    }
    kani::cover!(true, "end");
    std::mem::forget(rg);
}

#[kani::proof]
#[kani::unwind(5)]
fn c05_q_from_sparse_1() {
    from_sparse_case::<1>()
}
#[kani::proof]
#[kani::unwind(5)]
fn c05_q_from_sparse_2() {
    from_sparse_case::<2>()
}
#[kani::proof]
#[kani::unwind(5)]
fn c05_q_from_sparse_3() {
    from_sparse_case::<3>()
}
#[kani::proof]
#[kani::unwind(6)]
fn c05_t_from_sparse_4() {
    from_sparse_case::<4>()
}
#[kani::proof]
fn c05_q_from_sparse_0() {
    let cells: Vec<Cell<usize>> = Vec::new();
    let rg = Range::from_sparse(cells);
    assert!(rg.is_empty() && invariant(&rg));
    kani::cover!(true, "end");
}

// ---------------------------------------------------------------- K3 set_value
/// Pre-state: arbitrary H x W range. Target: relative (TR, TC) (shape; may lie beyond the end corner).
fn set_value_case<const H: usize, const W: usize, const TR: usize, const TC: usize, const R0: u32, const C0: u32>() {
    let (mut rg, (r0, c0), old) = any_range_at::<H, W>(R0, C0);
    let v: usize = kani::any();
    rg.set_value((r0 + TR as u32, c0 + TC as u32), v);
    let nh = if TR + 1 > H { TR + 1 } else { H };
    let nw = if TC + 1 > W { TC + 1 } else { W };
    assert!(invariant(&rg), "set_value preserves the invariant");
    assert!(rg.start == (r0, c0), "set_value keeps the start corner");
    assert!(rg.end == (r0 + nh as u32 - 1, c0 + nw as u32 - 1), "set_value grows to the bounding box");
    assert!(rg.inner.len() == nh * nw, "set_value: height x width cells");
    let mut i = 0;
    while i < nh {
        let mut j = 0;
        while j < nw {
            let exp = if i == TR && j == TC {
                v
            } else if i < H && j < W {
                old[i][j]
            } else {
                0
            };
            assert!(rg.inner[i * nw + j] == exp, "set_value changes exactly the addressed cell; new cells are default");
            j += 1;
        }
        i += 1;
    }
    assert!(rg.get_value((r0 + TR as u32, c0 + TC as u32)) == Some(&v));
    kani::cover!(true, "end");
    std::mem::forget(rg);
}

macro_rules! sv {
    ($name:ident, $h:expr, $w:expr, $tr:expr, $tc:expr) => {
        sv!($name, $h, $w, $tr, $tc, 7, 3);
    };
    ($name:ident, $h:expr, $w:expr, $tr:expr, $tc:expr, $r0:expr, $c0:expr) => {
        #[kani::proof]
        #[kani::unwind(7)]
        fn $name() {
            set_value_case::<$h, $w, $tr, $tc, $r0, $c0>()
        }
    };
}
// other origins: sheet corner, last xlsx cell block, top of the u32 space
sv!(c05_q_set_value_2x2_at_2_2_origin0, 2, 2, 2, 2, 0, 0);
sv!(c05_q_set_value_1x2_at_2_0_origin_xfd, 1, 2, 2, 0, 1048570, 16380);
sv!(c05_q_set_value_2x1_at_1_2_origin_max, 2, 1, 1, 2, 4294967290, 4294967290);
// inside, grow rows only, grow cols only, grow both; 1x1 .. 2x2 pre-states
sv!(c05_q_set_value_1x1_at_0_0, 1, 1, 0, 0);
sv!(c05_q_set_value_1x1_at_2_0, 1, 1, 2, 0);
sv!(c05_q_set_value_1x1_at_0_2, 1, 1, 0, 2);
sv!(c05_q_set_value_1x1_at_1_1, 1, 1, 1, 1);
sv!(c05_q_set_value_2x2_at_1_0, 2, 2, 1, 0);
sv!(c05_q_set_value_2x2_at_2_1, 2, 2, 2, 1);
sv!(c05_q_set_value_2x2_at_0_3, 2, 2, 0, 3);
sv!(c05_q_set_value_2x2_at_3_2, 2, 2, 3, 2);
sv!(c05_q_set_value_1x2_at_1_2, 1, 2, 1, 2);
sv!(c05_q_set_value_2x1_at_1_1, 2, 1, 1, 1);
sv!(c05_q_set_value_2x3_at_0_1, 2, 3, 0, 1);
sv!(c05_t_set_value_3x3_at_4_4, 3, 3, 4, 4);
sv!(c05_t_set_value_3x3_at_1_4, 3, 3, 1, 4);
sv!(c05_t_set_value_3x3_at_4_1, 3, 3, 4, 1);
sv!(c05_t_set_value_3x2_at_2_2, 3, 2, 2, 2);
sv!(c05_t_set_value_2x3_at_3_0, 2, 3, 3, 0);
sv!(c05_t_set_value_3x3_at_2_2, 3, 3, 2, 2);

/// Two steps in sequence (the composition of inductive steps, as a cross-check of the invariant).
#[kani::proof]
#[kani::unwind(7)]
fn c05_q_set_value_twice() {
    let (mut rg, (r0, c0), old) = any_range::<1, 2>();
    let v1: usize = kani::any();
    let v2: usize = kani::any();
    rg.set_value((r0 + 1, c0), v1);
    rg.set_value((r0, c0 + 2), v2);
    assert!(invariant(&rg));
    assert!(rg.start == (r0, c0) && rg.end == (r0 + 1, c0 + 2));
    let exp = [old[0][0], old[0][1], v2, v1, 0, 0];
    let mut i = 0;
    while i < 6 {
        assert!(rg.inner[i] == exp[i], "two writes: every cell accounted for");
        i += 1;
    }
    kani::cover!(true, "end");
    std::mem::forget(rg);
}

/// An empty range satisfies the documented precondition of set_value for every position
/// (its start corner reads (0,0)); afterwards it must be a consistent rectangle holding the value.
#[kani::proof]
#[kani::unwind(7)]
fn c05_q_set_value_on_empty() {
    let mut rg: Range<usize> = Range::empty();
    let r: u32 = kani::any();
    let c: u32 = kani::any();
    kani::assume(r <= 2 && c <= 2);
    let v: usize = kani::any();
    rg.set_value((r, c), v);
    assert!(invariant(&rg), "set_value on an empty range leaves a consistent rectangle");
    assert!(rg.get_value((r, c)) == Some(&v), "set_value on an empty range stores the value");
    assert!(rg.start() == Some((r, c)) && rg.end() == Some((r, c)) && rg.inner.len() == 1, "bounding box of nothing and the position is the position");
    kani::cover!(true, "end");
    std::mem::forget(rg);
}

// ---------------------------------------------------------------- K4 range(s, e)
/// Source H x W at origin; window of WH x WW whose start is origin + (DR, DC) (shape, may be negative).
fn range_case<const H: usize, const W: usize, const DR: i32, const DC: i32, const WH: usize, const WW: usize, const R0: u32, const C0: u32>() {
    let (rg, (r0, c0), old) = any_range_at::<H, W>(R0, C0);
    let s = ((r0 as i64 + DR as i64) as u32, (c0 as i64 + DC as i64) as u32);
    let e = (s.0 + WH as u32 - 1, s.1 + WW as u32 - 1);
    let out = rg.range(s, e);
    assert!(invariant(&out), "range() result satisfies the invariant");
    assert!(out.start == s && out.end == e, "range(s,e) has bounds (s,e)");
    assert!(out.inner.len() == WH * WW);
    let mut i = 0;
    while i < WH {
        let mut j = 0;
        while j < WW {
            let si = i as i32 + DR;
            let sj = j as i32 + DC;
            let exp = if si >= 0 && (si as usize) < H && sj >= 0 && (sj as usize) < W {
                old[si as usize][sj as usize]
            } else {
                0
            };
            assert!(out.inner[i * WW + j] == exp, "range(): source on the overlap, default elsewhere");
            j += 1;
        }
        i += 1;
    }
    // the source is untouched
    i = 0;
    while i < H {
        let mut j = 0;
        while j < W {
            assert!(rg.inner[i * W + j] == old[i][j]);
            j += 1;
        }
        i += 1;
    }
    kani::cover!(true, "end");
    std::mem::forget(out);
    std::mem::forget(rg);
}

macro_rules! rc {
    ($name:ident, $h:expr, $w:expr, $dr:expr, $dc:expr, $wh:expr, $ww:expr) => {
        rc!($name, $h, $w, $dr, $dc, $wh, $ww, 7, 3);
    };
    ($name:ident, $h:expr, $w:expr, $dr:expr, $dc:expr, $wh:expr, $ww:expr, $r0:expr, $c0:expr) => {
        #[kani::proof]
        #[kani::unwind(7)]
        fn $name() {
            range_case::<$h, $w, $dr, $dc, $wh, $ww, $r0, $c0>()
        }
    };
}
rc!(c05_q_range_2x2_from_sheet_corner, 2, 2, -2, -1, 3, 3, 2, 1);
rc!(c05_q_range_2x2_origin_max, 2, 2, -1, 0, 3, 3, 4294967290, 4294967290);
// origins whose row indices are smaller than the column indices (and the converse is the default origin (7,3))
rc!(c05_q_range_2x3_overhang_right_lowrow, 2, 3, 0, 1, 2, 4, 1, 5);
rc!(c05_q_range_3x2_overhang_bottom_lowcol, 3, 2, 1, 0, 4, 2, 9, 0);
rc!(c05_q_range_2x2_inside_lowrow, 2, 2, 1, 0, 1, 2, 0, 6);
rc!(c05_q_range_2x2_same, 2, 2, 0, 0, 2, 2);
rc!(c05_q_range_2x2_inner, 2, 2, 1, 1, 1, 1);
rc!(c05_q_range_2x2_superset, 2, 2, -1, -1, 4, 4);
rc!(c05_q_range_2x2_up_left, 2, 2, -1, -1, 2, 2);
rc!(c05_q_range_2x2_down_right, 2, 2, 1, 1, 3, 2);
rc!(c05_q_range_2x2_disjoint_below, 2, 2, 3, 0, 2, 2);
rc!(c05_q_range_2x2_disjoint_right, 2, 2, 0, 2, 1, 3);
rc!(c05_q_range_2x3_cols_shift, 2, 3, 0, 1, 2, 3);
rc!(c05_q_range_1x3_rows_above, 1, 3, -2, 1, 3, 1);
rc!(c05_t_range_3x3_center, 3, 3, 1, 1, 1, 1);
rc!(c05_t_range_3x3_cross, 3, 3, -1, 1, 5, 1);
rc!(c05_t_range_3x2_left, 3, 2, 1, -2, 2, 3);
rc!(c05_t_range_2x3_touch_corner, 2, 3, 1, 2, 2, 2);

/// range() on an empty source: documented precondition (s <= e) holds; result is the all-default window.
#[kani::proof]
#[kani::unwind(7)]
fn c05_q_range_of_empty() {
    let rg: Range<usize> = Range::empty();
    let s0: u32 = kani::any();
    let s1: u32 = kani::any();
    kani::assume(s0 <= 1 && s1 <= 1);
    let out = rg.range((s0, s1), (s0 + 1, s1 + 1));
    assert!(invariant(&out));
    assert!(out.start == (s0, s1) && out.end == (s0 + 1, s1 + 1));
    let mut i = 0;
    while i < 4 {
        assert!(out.inner[i] == 0, "window over an empty range is all default");
        i += 1;
    }
    kani::cover!(s0 == 0 && s1 == 0, "end");
    std::mem::forget(out);
}

// ---------------------------------------------------------------- K5 accessors
fn accessors_case<const H: usize, const W: usize>() {
    let (rg, (r0, c0), old) = any_range::<H, W>();
    assert!(rg.height() == H && rg.width() == W && rg.get_size() == (H, W));
    assert!(rg.start() == Some((r0, c0)) && rg.end() == Some((r0 + H as u32 - 1, c0 + W as u32 - 1)));
    // rows(): H slices of W cells, in order
    let mut rows = rg.rows();
    assert!(rows.len() == H, "rows(): exact size");
    let mut i = 0;
    while i < H {
        match rows.next() {
            Some(row) => {
                assert!(row.len() == W, "rows(): width cells per row");
                let mut j = 0;
                while j < W {
                    assert!(row[j] == old[i][j], "rows(): row-major content");
                    j += 1;
                }
            }
            None => assert!(false, "rows() ended early"),
        }
        i += 1;
    }
    assert!(rows.next().is_none(), "rows(): exactly height rows");
    // cells(): row-major with relative coordinates
    let mut cells = rg.cells();
    assert!(cells.len() == H * W);
    let mut k = 0;
    while k < H * W {
        match cells.next() {
            Some((r, c, v)) => {
                assert!(r == k / W && c == k % W, "cells(): relative coordinates");
                assert!(*v == old[k / W][k % W], "cells(): content");
            }
            None => assert!(false, "cells() ended early"),
        }
        k += 1;
    }
    assert!(cells.next().is_none());
    // used_cells(): exactly the non-default ones, in order
    let mut used = rg.used_cells();
    k = 0;
    while k < H * W {
        if old[k / W][k % W] != 0 {
            match used.next() {
                Some((r, c, v)) => {
                    assert!(r == k / W && c == k % W && *v == old[k / W][k % W], "used_cells(): next non-default cell");
                }
                None => assert!(false, "used_cells() dropped a non-default cell"),
            }
        }
        k += 1;
    }
    assert!(used.next().is_none(), "used_cells(): nothing but the non-default cells");
    // get / get_value / Index agree
    let pi: usize = kani::any();
    let pj: usize = kani::any();
    kani::assume(pi <= H + 1 && pj <= W + 1);
    let inside = pi < H && pj < W;
    let g = rg.get((pi, pj));
    let gv = rg.get_value((r0 + pi as u32, c0 + pj as u32));
    if inside {
        assert!(g == Some(&old[pi][pj]) && gv == g, "get and get_value agree inside");
        assert!(rg[(pi, pj)] == old[pi][pj], "Index<(usize,usize)>");
        assert!(rg[pi][pj] == old[pi][pj], "Index<usize> row");
        assert!(rg[pi].len() == W);
    } else {
        assert!(g.is_none() && gv.is_none(), "outside positions are None");
    }
    assert!(rg.get_value((r0 - 1, c0)).is_none() && rg.get_value((r0, c0 - 1)).is_none());
    kani::cover!(inside, "end");
    std::mem::forget(rg);
}

#[kani::proof]
#[kani::unwind(8)]
fn c05_t_accessors_2x3() {
    accessors_case::<2, 3>()
}
#[kani::proof]
#[kani::unwind(8)]
fn c05_q_accessors_2x2() {
    accessors_case::<2, 2>()
}
#[kani::proof]
#[kani::unwind(8)]
fn c05_q_accessors_1x1() {
    accessors_case::<1, 1>()
}
#[kani::proof]
#[kani::unwind(8)]
fn c05_q_accessors_3x1() {
    accessors_case::<3, 1>()
}
#[kani::proof]
#[kani::unwind(11)]
fn c05_t_accessors_3x3() {
    accessors_case::<3, 3>()
}

/// Double-ended iteration is consistent with forward iteration.
#[kani::proof]
#[kani::unwind(8)]
fn c05_q_accessors_back() {
    let (rg, _o, old) = any_range::<2, 2>();
    let mut rows = rg.rows();
    let last = rows.next_back().unwrap();
    assert!(last[0] == old[1][0] && last[1] == old[1][1]);
    let first = rows.next_back().unwrap();
    assert!(first[0] == old[0][0]);
    assert!(rows.next().is_none() && rows.next_back().is_none());
    let mut cells = rg.cells();
    let (r, c, v) = cells.next_back().unwrap();
    assert!(r == 1 && c == 1 && *v == old[1][1]);
    let mut used = rg.used_cells();
    match used.next_back() {
        Some((r, c, v)) => {
            assert!(*v != 0 && *v == old[r][c]);
            // it is the last non-default
            assert!((r, c) == (1, 1) || old[1][1] == 0);
        }
        None => assert!(old[0][0] == 0 && old[0][1] == 0 && old[1][0] == 0 && old[1][1] == 0),
    }
    kani::cover!(true, "end");
    std::mem::forget(rg);
}

#[kani::proof]
#[kani::unwind(7)]
fn c05_q_twin() {
    let (mut rg, (r0, c0), _old) = any_range::<1, 1>();
    rg.set_value((r0 + 1, c0 + 1), 7);
    std::mem::forget(rg);
    assert!(false, "vacuity twin");
}
