// C14 — xls (BIFF8) formula token rendering. Child module of src/xls.rs.
// Rows (and every other number rendered through core::fmt) are concrete per shape; columns, relative/absolute
// flag bits, sheet indices, operator and function ids are symbolic. utils::push_column is replaced by its
// verified model (see kcommon.rs) selected by the letter-count shape.
#![allow(unused_imports, dead_code)]
use super::*;
use crate::k_kcommon::*;

fn enc() -> XlsEncoding {
    crate::cfb::k_kcfb::utf16_enc()
}

fn run(rgce: &[u8], sheets: &[String], xtis: &[Xti]) -> Result<String, XlsError> {
    let names: [(String, String); 0] = [];
    let e = enc();
    let r = parse_formula(rgce, sheets, &names, xtis, &e);
    std::mem::forget(e);
    r
}

/// PtgRef (0x24/0x44/0x64): row ROW (concrete, DIG decimal digits of ROW+1), column symbolic in [LO,HI) with L letters,
/// both relative bits symbolic. MS-XLS RgceLoc: bit 14 of the column word = colRelative, bit 15 = rowRelative.
fn ptg_ref_case<const PTG: u8, const ROW: u16, const DIG: usize, const LO: u16, const HI: u16, const L: usize>() {
    // the token id is concrete (shape): a symbolic id makes symbolic execution walk every arm of the 40-arm match
    let ptg = PTG;
    let col: u16 = kani::any();
    kani::assume(col >= LO && col < HI);
    let col_rel: bool = kani::any();
    let row_rel: bool = kani::any();
    let colw = col | if col_rel { 0x4000 } else { 0 } | if row_rel { 0x8000 } else { 0 };
    let rgce = [5u8, 0, ptg, ROW as u8, (ROW >> 8) as u8, colw as u8, (colw >> 8) as u8];
    let sheets: [String; 0] = [];
    let xtis: [Xti; 0] = [];
    let f = run(&rgce, &sheets, &xtis).unwrap();
    let mut exp = TBuf::new();
    if !col_rel {
        exp.ch(b'$');
    }
    exp.col(col as u32, L);
    if !row_rel {
        exp.ch(b'$');
    }
    exp.dec(ROW as u64 + 1, DIG);
    assert!(exp.eq(f.as_bytes()), "PtgRef renders [$]COL[$]ROW with $ exactly on the absolute components");
    kani::cover!(col_rel && !row_rel, "end");
    std::mem::forget(f);
}

#[kani::proof]
#[kani::unwind(12)]
#[kani::stub(crate::utils::push_column, crate::k_kcommon::model_push_column_l1)]
fn c14_q_xls_ref_row0_l1() {
    ptg_ref_case::<0x24, 0, 1, 0, 26, 1>()
}
#[kani::proof]
#[kani::unwind(12)]
#[kani::stub(crate::utils::push_column, crate::k_kcommon::model_push_column_l2)]
fn c14_t_xls_ref_row98_l2() {
    ptg_ref_case::<0x44, 98, 2, 26, 256, 2>()
}
#[kani::proof]
#[kani::unwind(12)]
#[kani::stub(crate::utils::push_column, crate::k_kcommon::model_push_column_l1)]
fn c14_t_xls_ref_row65534_l1() {
    ptg_ref_case::<0x64, 65534, 5, 0, 26, 1>()
}
#[kani::proof]
#[kani::unwind(12)]
#[kani::stub(crate::utils::push_column, crate::k_kcommon::model_push_column_l1)]
fn c14_q_xls_ref_row65535_l1() {
    ptg_ref_case::<0x24, 65535, 5, 0, 26, 1>()
}


fn colw(col: u16, col_rel: bool, row_rel: bool) -> u16 {
    col | if col_rel { 0x4000 } else { 0 } | if row_rel { 0x8000 } else { 0 }
}

fn exp_ref(exp: &mut TBuf, col: u16, l: usize, col_rel: bool, row_rel: bool, row: u64, dig: usize) {
    if !col_rel {
        exp.ch(b'$');
    }
    exp.col(col as u32, l);
    if !row_rel {
        exp.ch(b'$');
    }
    exp.dec(row + 1, dig);
}

/// PtgArea (0x25/0x45/0x65): rows R1,R2 concrete, two symbolic 1-letter columns, four symbolic relative bits.
fn ptg_area_case<const PTG: u8, const R1: u16, const D1: usize, const R2: u16, const D2: usize>() {
    let c1: u16 = kani::any();
    let c2: u16 = kani::any();
    kani::assume(c1 < 26 && c2 < 26);
    let f: [bool; 4] = kani::any();
    let w1 = colw(c1, f[0], f[1]);
    let w2 = colw(c2, f[2], f[3]);
    let rgce = [9u8, 0, PTG, R1 as u8, (R1 >> 8) as u8, R2 as u8, (R2 >> 8) as u8, w1 as u8, (w1 >> 8) as u8, w2 as u8, (w2 >> 8) as u8];
    let sheets: [String; 0] = [];
    let xtis: [Xti; 0] = [];
    let out = run(&rgce, &sheets, &xtis).unwrap();
    let mut exp = TBuf::new();
    exp_ref(&mut exp, c1, 1, f[0], f[1], R1 as u64, D1);
    exp.ch(b':');
    exp_ref(&mut exp, c2, 1, f[2], f[3], R2 as u64, D2);
    assert!(exp.eq(out.as_bytes()), "PtgArea renders first:last with $ exactly on the absolute components");
    kani::cover!(f[0] && !f[1] && !f[2] && f[3], "end");
    std::mem::forget(out);
}

#[kani::proof]
#[kani::unwind(16)]
#[kani::stub(crate::utils::push_column, crate::k_kcommon::model_push_column_l1)]
fn c14_q_xls_area_r0_r8() {
    ptg_area_case::<0x25, 0, 1, 8, 1>()
}
#[kani::proof]
#[kani::unwind(18)]
#[kani::stub(crate::utils::push_column, crate::k_kcommon::model_push_column_l1)]
fn c14_t_xls_area_r9_r65535() {
    ptg_area_case::<0x65, 9, 2, 65535, 5>()
}

fn two_sheets() -> [String; 2] {
    [String::from("S"), String::from("T2")]
}

/// PtgRef3d (0x3a): ixti symbolic into a 2-entry XTI table whose itabFirst entries are symbolic in {-1, 0, 1};
/// expected: name of sheet itabFirst (or #REF when it names no sheet) + '!' + the reference.
fn ptg_ref3d_case<const PTG: u8, const ROW: u16, const DIG: usize>() {
    let ixti: u16 = kani::any();
    kani::assume(ixti < 3); // 2 = beyond the table
    let t0: i16 = kani::any();
    let t1: i16 = kani::any();
    kani::assume(t0 >= -1 && t0 <= 2 && t1 >= -1 && t1 <= 2);
    let xtis = [Xti { _isup_book: 0, itab_first: t0, _itab_last: t0 }, Xti { _isup_book: 0, itab_first: t1, _itab_last: t1 }];
    let sheets = two_sheets();
    let col: u16 = kani::any();
    kani::assume(col < 26);
    let cr: bool = kani::any();
    let rr: bool = kani::any();
    let w = colw(col, cr, rr);
    let rgce = [7u8, 0, PTG, ixti as u8, (ixti >> 8) as u8, ROW as u8, (ROW >> 8) as u8, w as u8, (w >> 8) as u8];
    let out = run(&rgce, &sheets, &xtis).unwrap();
    let itab: i16 = if ixti == 0 { t0 } else if ixti == 1 { t1 } else { -1 };
    let mut exp = TBuf::new();
    match itab {
        0 => exp.s(b"S"),
        1 => exp.s(b"T2"),
        _ => exp.s(b"#REF"),
    }
    exp.ch(b'!');
    exp_ref(&mut exp, col, 1, cr, rr, ROW as u64, DIG);
    assert!(exp.eq(out.as_bytes()), "PtgRef3d names the sheet the XTI entry designates and renders the reference");
    kani::cover!(ixti == 1 && t1 == 0 && cr && !rr, "end");
    std::mem::forget(out);
    std::mem::forget(sheets);
}

#[kani::proof]
#[kani::unwind(14)]
#[kani::stub(crate::utils::push_column, crate::k_kcommon::model_push_column_l1)]
fn c14_q_xls_ref3d_row4() {
    ptg_ref3d_case::<0x3a, 4, 1>()
}
#[kani::proof]
#[kani::unwind(16)]
#[kani::stub(crate::utils::push_column, crate::k_kcommon::model_push_column_l1)]
fn c14_t_xls_ref3d_row65535() {
    ptg_ref3d_case::<0x5a, 65535, 5>()
}

/// PtgArea3d (0x3b).
#[kani::proof]
#[kani::unwind(18)]
#[kani::stub(crate::utils::push_column, crate::k_kcommon::model_push_column_l1)]
fn c14_t_xls_area3d() {
    let ixti: u16 = kani::any();
    kani::assume(ixti < 2);
    let t0: i16 = kani::any();
    let t1: i16 = kani::any();
    kani::assume(t0 >= 0 && t0 <= 1 && t1 >= 0 && t1 <= 1);
    let xtis = [Xti { _isup_book: 0, itab_first: t0, _itab_last: t0 }, Xti { _isup_book: 0, itab_first: t1, _itab_last: t1 }];
    let sheets = two_sheets();
    let c1: u16 = kani::any();
    let c2: u16 = kani::any();
    kani::assume(c1 < 26 && c2 < 26);
    let f: [bool; 4] = kani::any();
    let w1 = colw(c1, f[0], f[1]);
    let w2 = colw(c2, f[2], f[3]);
    let rgce = [11u8, 0, 0x3b, ixti as u8, 0, 1, 0, 3, 0, w1 as u8, (w1 >> 8) as u8, w2 as u8, (w2 >> 8) as u8];
    let out = run(&rgce, &sheets, &xtis).unwrap();
    let itab = if ixti == 0 { t0 } else { t1 };
    let mut exp = TBuf::new();
    if itab == 0 {
        exp.s(b"S");
    } else {
        exp.s(b"T2");
    }
    exp.ch(b'!');
    exp_ref(&mut exp, c1, 1, f[0], f[1], 1, 1);
    exp.ch(b':');
    exp_ref(&mut exp, c2, 1, f[2], f[3], 3, 1);
    assert!(exp.eq(out.as_bytes()), "PtgArea3d names the sheet through the XTI table and renders the area");
    kani::cover!(ixti == 0 && t0 == 1, "end");
    std::mem::forget(out);
    std::mem::forget(sheets);
}

/// Binary operator OP (concrete id, TXT its text) over two symbolic single-cell references: "A1<op>B2".
fn binop_case<const OP: u8>(txt: &[u8]) {
    // flags concrete here (text lengths stay concrete for split_off/write!); flag rendering is decided by the ref/area shapes
    let c1: u16 = kani::any();
    let c2: u16 = kani::any();
    kani::assume(c1 < 26 && c2 < 26);
    let w1 = colw(c1, true, true);
    let w2 = colw(c2, false, true);
    let rgce = [11u8, 0, 0x44, 0, 0, w1 as u8, (w1 >> 8) as u8, 0x24, 1, 0, w2 as u8, (w2 >> 8) as u8, OP];
    let sheets: [String; 0] = [];
    let xtis: [Xti; 0] = [];
    let out = run(&rgce, &sheets, &xtis).unwrap();
    let mut exp = TBuf::new();
    exp_ref(&mut exp, c1, 1, true, true, 0, 1);
    exp.s(txt);
    exp_ref(&mut exp, c2, 1, false, true, 1, 1);
    assert!(exp.eq(out.as_bytes()), "binary operator renders left operand, operator, right operand in order");
    kani::cover!(c1 != c2, "end");
    std::mem::forget(out);
}

/// experiment: tight inner-loop bounds (see specs.py unwindset for the scan loop and the oracle loops)
#[kani::proof]
#[kani::unwind(4)]
#[kani::stub(crate::utils::push_column, crate::k_kcommon::model_push_column_l1)]
fn c14_x_xls_binop_tight_ge() {
    binop_case::<0x0C>(b">=")
}

macro_rules! binop {
    ($name:ident, $op:expr, $txt:expr) => {
        #[kani::proof]
        #[kani::unwind(16)]
        #[kani::stub(crate::utils::push_column, crate::k_kcommon::model_push_column_l1)]
        fn $name() {
            binop_case::<$op>($txt)
        }
    };
}
binop!(c14_x_xls_binop_add, 0x03, b"+");
binop!(c14_x_xls_binop_sub, 0x04, b"-");
binop!(c14_x_xls_binop_le, 0x0A, b"<=");
binop!(c14_x_xls_binop_ne, 0x0E, b"<>");
binop!(c14_x_xls_binop_mul, 0x05, b"*");
binop!(c14_x_xls_binop_div, 0x06, b"/");
binop!(c14_x_xls_binop_pow, 0x07, b"^");
binop!(c14_x_xls_binop_concat, 0x08, b"&");
binop!(c14_x_xls_binop_lt, 0x09, b"<");
binop!(c14_x_xls_binop_eq, 0x0B, b"=");
binop!(c14_x_xls_binop_ge, 0x0C, b">=");
binop!(c14_x_xls_binop_gt, 0x0D, b">");
binop!(c14_x_xls_binop_isect, 0x0F, b" ");
binop!(c14_x_xls_binop_union, 0x10, b",");
binop!(c14_x_xls_binop_range, 0x11, b":");

/// Unary minus / plus / percent / parentheses around a reference, then "+B1": "(-A1)+B1" exercises the operand stack.
#[kani::proof]
#[kani::unwind(16)]
#[kani::stub(crate::utils::push_column, crate::k_kcommon::model_push_column_l1)]
fn c14_x_xls_unary_paren() {
    let c1: u16 = kani::any();
    let c2: u16 = kani::any();
    kani::assume(c1 < 26 && c2 < 26);
    let w1 = colw(c1, true, true);
    let w2 = colw(c2, true, true);
    // A1, uminus, paren, B1, add
    let rgce = [13u8, 0, 0x24, 0, 0, w1 as u8, (w1 >> 8) as u8, 0x13, 0x15, 0x24, 0, 0, w2 as u8, (w2 >> 8) as u8, 0x03];
    let sheets: [String; 0] = [];
    let xtis: [Xti; 0] = [];
    let out = run(&rgce, &sheets, &xtis).unwrap();
    let mut exp = TBuf::new();
    exp.s(b"(-");
    exp.col(c1 as u32, 1);
    exp.s(b"1)+");
    exp.col(c2 as u32, 1);
    exp.s(b"1");
    assert!(exp.eq(out.as_bytes()), "unary minus and parentheses wrap their operand");
    kani::cover!(c1 == 2, "end");
    std::mem::forget(out);
}

#[kani::proof]
#[kani::unwind(16)]
#[kani::stub(crate::utils::push_column, crate::k_kcommon::model_push_column_l1)]
fn c14_t_xls_percent_uplus() {
    let c1: u16 = kani::any();
    kani::assume(c1 < 26);
    let w1 = colw(c1, true, false);
    let rgce = [7u8, 0, 0x24, 2, 0, w1 as u8, (w1 >> 8) as u8, 0x14, 0x12];
    let sheets: [String; 0] = [];
    let xtis: [Xti; 0] = [];
    let out = run(&rgce, &sheets, &xtis).unwrap();
    let mut exp = TBuf::new();
    exp.ch(b'+');
    exp.col(c1 as u32, 1);
    exp.s(b"$3%");
    assert!(exp.eq(out.as_bytes()), "unary plus prefix and percent suffix");
    kani::cover!(true, "end");
    std::mem::forget(out);
}

/// Literals: PtgBool (symbolic), PtgErr (symbolic code), PtgInt (concrete), combined with '&' where useful.
#[kani::proof]
#[kani::unwind(16)]
fn c14_q_xls_bool_literal() {
    let b: u8 = kani::any();
    let rgce = [2u8, 0, 0x1D, b];
    let sheets: [String; 0] = [];
    let xtis: [Xti; 0] = [];
    let out = run(&rgce, &sheets, &xtis).unwrap();
    let mut exp = TBuf::new();
    if b == 0 {
        exp.s(b"FALSE");
    } else {
        exp.s(b"TRUE");
    }
    assert!(exp.eq(out.as_bytes()), "boolean literal");
    kani::cover!(b == 1, "end");
    std::mem::forget(out);
}

#[kani::proof]
#[kani::unwind(20)]
fn c14_q_xls_err_literal() {
    let e: u8 = kani::any();
    let rgce = [2u8, 0, 0x1C, e];
    let sheets: [String; 0] = [];
    let xtis: [Xti; 0] = [];
    let res = run(&rgce, &sheets, &xtis);
    let mut exp = TBuf::new();
    let known = match e {
        0x00 => { exp.s(b"#NULL!"); true }
        0x07 => { exp.s(b"#DIV/0!"); true }
        0x0F => { exp.s(b"#VALUE!"); true }
        0x17 => { exp.s(b"#REF!"); true }
        0x1D => { exp.s(b"#NAME?"); true }
        0x24 => { exp.s(b"#NUM!"); true }
        0x2A => { exp.s(b"#N/A"); true }
        0x2B => { exp.s(b"#GETTING_DATA"); true }
        _ => false,
    };
    match res {
        Ok(ref out) => assert!(known && exp.eq(out.as_bytes()), "error literal text"),
        Err(ref _x) => assert!(!known, "known error literal rejected"),
    }
    kani::cover!(e == 0x2A, "end");
    std::mem::forget(res);
}

#[kani::proof]
#[kani::unwind(16)]
fn c14_q_xls_int_literals() {
    // 7 * 65535 : numbers rendered through core::fmt are concrete
    let rgce = [7u8, 0, 0x1E, 7, 0, 0x1E, 0xFF, 0xFF, 0x05];
    let sheets: [String; 0] = [];
    let xtis: [Xti; 0] = [];
    let out = run(&rgce, &sheets, &xtis).unwrap();
    let mut exp = TBuf::new();
    exp.s(b"7*65535");
    assert!(exp.eq(out.as_bytes()), "integer literals");
    kani::cover!(true, "end");
    std::mem::forget(out);
}

/// Functions: fixed arity (PtgFunc, iftab concrete) and variable arity (PtgFuncVar, argc concrete) over symbolic refs.
fn func_fixed_case<const IFTAB: u16>(name: &[u8]) {
    let c1: u16 = kani::any();
    kani::assume(c1 < 26);
    let cr: bool = kani::any();
    let w1 = colw(c1, cr, true);
    let rgce = [8u8, 0, 0x24, 0, 0, w1 as u8, (w1 >> 8) as u8, 0x41, IFTAB as u8, (IFTAB >> 8) as u8];
    let sheets: [String; 0] = [];
    let xtis: [Xti; 0] = [];
    let out = run(&rgce, &sheets, &xtis).unwrap();
    let mut exp = TBuf::new();
    exp.s(name);
    exp.ch(b'(');
    exp_ref(&mut exp, c1, 1, cr, true, 0, 1);
    exp.ch(b')');
    assert!(exp.eq(out.as_bytes()), "fixed-arity function renders NAME(arg)");
    kani::cover!(true, "end");
    std::mem::forget(out);
}

#[kani::proof]
#[kani::unwind(16)]
#[kani::stub(crate::utils::push_column, crate::k_kcommon::model_push_column_l1)]
fn c14_x_xls_func_sin() {
    func_fixed_case::<15>(b"SIN")
}
#[kani::proof]
#[kani::unwind(16)]
#[kani::stub(crate::utils::push_column, crate::k_kcommon::model_push_column_l1)]
fn c14_x_xls_func_isna() {
    func_fixed_case::<2>(b"ISNA")
}

fn func_var_case<const IFTAB: u16, const PTG: u8>(name: &[u8]) {
    let c1: u16 = kani::any();
    let c2: u16 = kani::any();
    kani::assume(c1 < 26 && c2 < 26);
    let w1 = colw(c1, true, true);
    let w2 = colw(c2, false, false);
    let rgce = [14u8, 0, 0x24, 0, 0, w1 as u8, (w1 >> 8) as u8, 0x24, 4, 0, w2 as u8, (w2 >> 8) as u8, PTG, 2, IFTAB as u8, (IFTAB >> 8) as u8];
    let sheets: [String; 0] = [];
    let xtis: [Xti; 0] = [];
    let out = run(&rgce, &sheets, &xtis).unwrap();
    let mut exp = TBuf::new();
    exp.s(name);
    exp.ch(b'(');
    exp.col(c1 as u32, 1);
    exp.s(b"1,$");
    exp.col(c2 as u32, 1);
    exp.s(b"$5)");
    assert!(exp.eq(out.as_bytes()), "variable-arity function renders NAME(arg1,arg2) in evaluation order");
    kani::cover!(c1 != c2, "end");
    std::mem::forget(out);
}

#[kani::proof]
#[kani::unwind(20)]
#[kani::stub(crate::utils::push_column, crate::k_kcommon::model_push_column_l1)]
fn c14_x_xls_funcvar_sum2() {
    func_var_case::<4, 0x22>(b"SUM")
}
#[kani::proof]
#[kani::unwind(20)]
#[kani::stub(crate::utils::push_column, crate::k_kcommon::model_push_column_l1)]
fn c14_x_xls_funcvar_count2() {
    func_var_case::<0, 0x42>(b"COUNT")
}

/// Defined name token: iname (1-based, symbolic) into a 2-entry name table.
#[kani::proof]
#[kani::unwind(16)]
fn c14_q_xls_name() {
    let iname: u32 = kani::any();
    kani::assume(iname >= 1 && iname <= 3);
    let ib = iname.to_le_bytes();
    let rgce = [5u8, 0, 0x23, ib[0], ib[1], ib[2], ib[3]];
    let sheets: [String; 0] = [];
    let xtis: [Xti; 0] = [];
    let names = [(String::from("Nm"), String::from("x")), (String::from("Other"), String::from("y"))];
    let e = enc();
    let out = parse_formula(&rgce, &sheets, &names, &xtis, &e).unwrap();
    let mut exp = TBuf::new();
    match iname {
        1 => exp.s(b"Nm"),
        2 => exp.s(b"Other"),
        _ => exp.s(b"#REF!"),
    }
    assert!(exp.eq(out.as_bytes()), "defined-name token renders the iname-th name");
    kani::cover!(iname == 2, "end");
    std::mem::forget(out);
    std::mem::forget(names);
    std::mem::forget(e);
}

#[kani::proof]
#[kani::unwind(8)]
#[kani::stub(crate::utils::push_column, crate::k_kcommon::model_push_column_l1)]
fn c14_q_twin_xls() {
    let rgce = [5u8, 0, 0x24, 0, 0, 1, 0];
    let sheets: [String; 0] = [];
    let xtis: [Xti; 0] = [];
    let f = run(&rgce, &sheets, &xtis).unwrap();
    std::mem::forget(f);
    assert!(false, "vacuity twin");
}
