// C13 — compound-file directory entries. Child module of src/cfb.rs (separate file: uses the UTF-16 decoder stub).
#![allow(unused_imports, dead_code)]
use super::*;

/// One 128-byte directory entry: name (UTF-16, NUL-terminated, 2 characters here), start sector at offset 116,
/// stream size at offset 120 (32 bits for 512-byte-sector files, 64 bits for 4096-byte-sector files). All other bytes
/// (entry type, colour, siblings, CLSID, timestamps) are symbolic and must not matter.
fn dir_case(sector_size: usize) {
    let mut e: [u8; 128] = kani::any();
    let c: [u8; 2] = kani::any();
    kani::assume(c[0] >= 0x21 && c[0] < 0x7F && c[1] >= 0x21 && c[1] < 0x7F);
    e[0] = c[0];
    e[1] = 0;
    e[2] = c[1];
    e[3] = 0;
    let mut i = 4;
    while i < 64 {
        e[i] = 0;
        i += 1;
    }
    if sector_size == 4096 {
        // keep the 64-bit size inside usize/u32 range of interest: high half symbolic but small
        e[126] = 0;
        e[127] = 0;
    }
    let d = Directory::from_slice(&e, sector_size);
    let nb = d.name.as_bytes();
    assert!(nb.len() == 2 && nb[0] == c[0] && nb[1] == c[1], "directory entry name up to the NUL terminator");
    assert!(d.start == u32::from_le_bytes([e[116], e[117], e[118], e[119]]), "start sector at offset 116");
    let lo = u32::from_le_bytes([e[120], e[121], e[122], e[123]]) as u64;
    let hi = u32::from_le_bytes([e[124], e[125], e[126], e[127]]) as u64;
    if sector_size == 512 {
        assert!(d.len as u64 == lo, "v3: 32-bit stream size (the high half is garbage in some writers)");
    } else {
        assert!(d.len as u64 == lo | (hi << 32), "v4: 64-bit stream size");
    }
    kani::cover!(true, "end");
    std::mem::forget(d);
}

#[kani::proof]
#[kani::unwind(70)]
#[kani::stub(encoding_rs::Encoding::decode, crate::k_kcommon::model_utf16_decode)]
fn c13_q_directory_v3() {
    dir_case(512)
}
#[kani::proof]
#[kani::unwind(70)]
#[kani::stub(encoding_rs::Encoding::decode, crate::k_kcommon::model_utf16_decode)]
fn c13_q_directory_v4() {
    dir_case(4096)
}
