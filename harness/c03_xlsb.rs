// C03 — xlsb record framing. Child module of src/xlsb/mod.rs.
// Hosts KSrc, the in-memory byte source that the overlay substitutes for `BufReader<ZipFile>` in RecordIter
// (in the overlay `RecordIter::from_zip` is cut off: it drops the zip file and returns an empty source; no harness calls it)
// (declared substitution, see specs.py / DESIGN 2.1): environment stub for the zip layer, nothing else changes.
#![allow(unused_imports, dead_code)]
use super::*;

/// In-memory byte source (no zip variant on purpose: with a `Zip(BufReader<ZipFile>)` arm CBMC walks into
/// miniz_oxide's inflate through the arm / its drop glue and runs out of memory even though the arm is never taken).
pub(crate) struct KSrc<'a>(pub(crate) &'a [u8]);

impl<'a> Read for KSrc<'a> {
    fn read(&mut self, buf: &mut [u8]) -> std::io::Result<usize> {
        let m = &mut self.0;
        let n = if m.len() < buf.len() { m.len() } else { buf.len() };
        let mut i = 0;
        while i < n {
            buf[i] = m[i];
            i += 1;
        }
        *m = &m[n..];
        Ok(n)
    }
    fn read_exact(&mut self, buf: &mut [u8]) -> std::io::Result<()> {
        let m = &mut self.0;
        if m.len() < buf.len() {
            return Err(std::io::Error::from(std::io::ErrorKind::UnexpectedEof));
        }
        let n = buf.len();
        let mut i = 0;
        while i < n {
            buf[i] = m[i];
            i += 1;
        }
        *m = &m[n..];
        Ok(())
    }
}

pub(crate) fn mem_iter(bytes: &[u8]) -> RecordIter<'_> {
    RecordIter { b: [0], r: KSrc(bytes) }
}

pub(crate) fn remaining(it: &RecordIter<'_>) -> usize {
    it.r.0.len()
}

/// Record id: 1 byte if < 0x80, else 2 bytes (7 bits each, low first) — MS-XLSB 2.1.4.
#[kani::proof]
#[kani::unwind(4)]
fn c03_q_read_type() {
    let s: [u8; 2] = kani::any();
    let mut it = mem_iter(&s);
    let t = it.read_type();
    let exp = if s[0] & 0x80 == 0 { s[0] as u16 } else { (s[0] & 0x7F) as u16 | (((s[1] & 0x7F) as u16) << 7) };
    let used = if s[0] & 0x80 == 0 { 1 } else { 2 };
    match t {
        Ok(v) => {
            assert!(v == exp, "record id varint value");
            assert!(remaining(&it) == 2 - used, "record id consumes 1 or 2 bytes");
        }
        Err(ref _e) => assert!(false, "record id rejected"),
    }
    kani::cover!(s[0] == 0x80 && s[1] == 0x01, "end"); // 128 = first two-byte id
    std::mem::forget(t);
}

/// Record length: 1..=4 bytes, 7 bits each, continuation bit 0x80; then exactly `len` payload bytes are consumed.
/// PRE bytes of prefix (shape) followed by PAY payload bytes.
fn fill_buffer_case<const PRE: usize, const PAY: usize, const TOT: usize>() {
    let mut s: [u8; TOT] = kani::any();
    // shape: exactly PRE prefix bytes (continuation bits concrete), value bits symbolic
    let mut i = 0;
    while i < PRE {
        if i + 1 < PRE {
            s[i] |= 0x80;
        } else if PRE < 4 {
            s[i] &= 0x7F;
        }
        i += 1;
    }
    let mut exp: usize = 0;
    i = 0;
    while i < PRE {
        exp |= ((s[i] & 0x7F) as usize) << (7 * i);
        i += 1;
    }
    kani::assume(exp <= 200); // stated bound: declared lengths up to 200 (arena 256); longer ones are C06 material
    let mut it = mem_iter(&s);
    let mut buf: Vec<u8> = Vec::with_capacity(8);
    let r = it.fill_buffer(&mut buf);
    match r {
        Ok(len) => {
            assert!(len == exp, "record length varint value");
            assert!(exp <= PAY, "length beyond the available bytes accepted");
            assert!(remaining(&it) == PAY - exp, "exactly prefix + len bytes consumed");
            let mut k = 0;
            while k < PAY {
                if k < len {
                    assert!(buf[k] == s[PRE + k], "payload bytes delivered in order");
                }
                k += 1;
            }
        }
        Err(ref _e) => assert!(exp > PAY, "record with available payload rejected"),
    }
    kani::cover!(r.is_ok() && exp == PAY, "end");
    std::mem::forget(r);
    std::mem::forget(buf);
}

#[kani::proof]
#[kani::unwind(8)]
fn c03_q_fill_buffer_pre1() {
    fill_buffer_case::<1, 3, 4>()
}
#[kani::proof]
#[kani::unwind(8)]
fn c03_q_fill_buffer_pre2() {
    fill_buffer_case::<2, 3, 5>()
}
#[kani::proof]
#[kani::unwind(8)]
fn c03_q_fill_buffer_pre3() {
    fill_buffer_case::<3, 2, 5>()
}
#[kani::proof]
#[kani::unwind(8)]
fn c03_t_fill_buffer_pre4() {
    fill_buffer_case::<4, 2, 6>()
}

/// Length boundary 127/128: one-byte 0x7F vs two-byte 0x80 0x01, payload concrete-size.
#[kani::proof]
#[kani::unwind(135)]
fn c03_t_fill_buffer_128() {
    let mut s = [0u8; 2 + 128];
    s[0] = 0x80;
    s[1] = 0x01;
    let v: u8 = kani::any();
    s[2 + 127] = v;
    let mut it = mem_iter(&s);
    let mut buf: Vec<u8> = Vec::with_capacity(8);
    let r = it.fill_buffer(&mut buf);
    assert!(matches!(r, Ok(128)), "0x80 0x01 is length 128");
    assert!(buf[127] == v && remaining(&it) == 0);
    kani::cover!(true, "end");
    std::mem::forget(r);
    std::mem::forget(buf);
}

/// wide_str: XLWideString = cch (u32) + cch UTF-16 code units; reports the consumed length; short buffers are an error.
#[kani::proof]
#[kani::unwind(12)]
#[kani::stub(encoding_rs::Encoding::decode, crate::k_kcommon::model_utf16_decode)]
fn c03_q_wide_str() {
    let c: [u8; 2] = kani::any();
    kani::assume(c[0] >= 0x20 && c[0] < 0x7F && c[1] >= 0x20 && c[1] < 0x7F);
    let cch: u8 = kani::any();
    kani::assume(cch <= 3);
    let buf = [cch, 0, 0, 0, c[0], 0, c[1], 0, 0x55];
    let mut used = 0usize;
    let r = wide_str(&buf, &mut used);
    match r {
        Ok(ref s) => {
            assert!(cch <= 2, "string longer than the buffer accepted");
            assert!(used == 4 + 2 * cch as usize, "consumed length");
            let b = s.as_bytes();
            assert!(b.len() == cch as usize);
            if cch >= 1 {
                assert!(b[0] == c[0]);
            }
            if cch == 2 {
                assert!(b[1] == c[1], "characters in order");
            }
        }
        Err(ref _e) => assert!(cch > 2, "well-formed wide string rejected"),
    }
    kani::cover!(cch == 2, "end");
    std::mem::forget(r);
}

#[kani::proof]
#[kani::unwind(4)]
fn c03_q_twin_framing() {
    let s = [0x81u8, 0x01];
    let mut it = mem_iter(&s);
    let t = it.read_type();
    std::mem::forget(t);
    assert!(false, "vacuity twin");
}
