// C06 — hostile input: VBA dir-stream record helpers. Child module of src/vba.rs.
#![allow(unused_imports, dead_code)]
use super::*;

/// A variable-length record whose declared length exceeds what is left must be an error, not a panic.
#[kani::proof]
#[kani::unwind(6)]
fn c06_q_vba_variable_record() {
    let b: [u8; 8] = kani::any();
    let n: usize = kani::any();
    kani::assume(n <= 8);
    let mut r: &[u8] = &b[..n];
    let mult: usize = kani::any();
    kani::assume(mult == 1 || mult == 2);
    let res = read_variable_record(&mut r, mult);
    if let Ok(rec) = res {
        assert!(rec.len() <= 4, "a record cannot be longer than the bytes that follow its length field");
    }
    kani::cover!(res.is_ok(), "end");
    std::mem::forget(res);
}

#[kani::proof]
#[kani::unwind(6)]
fn c06_q_vba_check_record() {
    let b: [u8; 8] = kani::any();
    let n: usize = kani::any();
    kani::assume(n <= 8);
    let mut r: &[u8] = &b[..n];
    let id: u16 = kani::any();
    let a = check_record(id, &mut r);
    let c = check_variable_record(id, &mut r);
    kani::cover!(a.is_ok(), "end");
    std::mem::forget((a, c));
}
