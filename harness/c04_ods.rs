// C04 — ODS repeat expansion (get_range). Child module of src/ods.rs.
// Shape = physical rows: (length, repeat count, forced-empty?) concrete per harness; cell contents symbolic (0 = empty).
// Oracle: expand the run-length grid densely, take the bounding box of the non-empty cells, compare everything.
#![allow(unused_imports, dead_code)]
use super::*;

const MR: usize = 8; // max expanded rows
const MC: usize = 4; // max columns

/// Cell type for get_range::<T>: emptiness (`used`) is concrete per shape so that the bounding-box arithmetic stays
/// concrete under symbolic execution (with plain symbolic values every slice bound becomes symbolic: > 600 s, see
/// DESIGN); the payload `v` is symbolic and tracks which cell ends up where.
#[derive(Clone, Default, Debug)]
struct KCell {
    used: bool,
    v: u8,
}
impl crate::CellType for KCell {}
impl PartialEq for KCell {
    fn eq(&self, o: &KCell) -> bool {
        if self.used != o.used {
            return false;
        }
        !self.used || self.v == o.v
    }
}

/// rows: (emptiness pattern of the physical row, repeat count). Oracle: dense expansion + bounding box.
fn ods_case(rows: &[(&[bool], usize)]) {
    let n = rows.len();
    let mut cells: Vec<KCell> = Vec::with_capacity(16);
    let mut cols = [0usize; 8];
    let mut reps = [0usize; 8];
    let mut grid_used = [[false; MC]; MR];
    let mut grid_v = [[0u8; MC]; MR];
    let mut er = 0;
    let mut total = 0;
    let mut i = 0;
    while i < n {
        let (pat, rep) = rows[i];
        let mut rowu = [false; MC];
        let mut rowv = [0u8; MC];
        let mut j = 0;
        while j < pat.len() {
            let v: u8 = kani::any();
            rowu[j] = pat[j];
            rowv[j] = v;
            cells.push(KCell { used: pat[j], v: if pat[j] { v } else { 0 } });
            j += 1;
        }
        total += pat.len();
        cols[i + 1] = total;
        reps[i] = rep;
        let mut k = 0;
        while k < rep {
            grid_used[er] = rowu;
            grid_v[er] = rowv;
            er += 1;
            k += 1;
        }
        i += 1;
    }
    let mut any_cell = false;
    let (mut r0, mut r1, mut c0, mut c1) = (usize::MAX, 0usize, usize::MAX, 0usize);
    let mut r = 0;
    while r < er {
        let mut c = 0;
        while c < MC {
            if grid_used[r][c] {
                any_cell = true;
                if r < r0 {
                    r0 = r;
                }
                if r > r1 {
                    r1 = r;
                }
                if c < c0 {
                    c0 = c;
                }
                if c > c1 {
                    c1 = c;
                }
            }
            c += 1;
        }
        r += 1;
    }
    let rg = get_range(cells, &cols[..n + 1], &reps[..n]);
    if !any_cell {
        assert!(rg.is_empty(), "a grid without values is the empty range");
    } else {
        assert!(rg.start() == Some((r0 as u32, c0 as u32)), "range starts at the first used row/column (leading empty runs counted)");
        assert!(rg.end() == Some((r1 as u32, c1 as u32)), "range ends at the last used row/column (trailing empties do not enlarge it)");
        let h = r1 - r0 + 1;
        let w = c1 - c0 + 1;
        assert!(rg.inner.len() == h * w, "range holds height x width cells");
        if rg.inner.len() == h * w {
            r = 0;
            while r < h {
                let mut c = 0;
                while c < w {
                    let got = &rg.inner[r * w + c];
                    assert!(got.used == grid_used[r0 + r][c0 + c], "every absolute position is empty/used as in the expanded grid");
                    if got.used {
                        assert!(got.v == grid_v[r0 + r][c0 + c], "every absolute position holds the value of the expanded grid");
                    }
                    c += 1;
                }
                r += 1;
            }
        }
    }
    kani::cover!(true, "end");
    std::mem::forget(rg);
}

const T: bool = true;
const F: bool = false;
macro_rules! ods {
    ($name:ident, $rows:expr) => {
        #[kani::proof]
        #[kani::unwind(12)]
        fn $name() {
            ods_case(&$rows)
        }
    };
}
ods!(c04_q_two_rows, [(&[T, T][..], 1usize), (&[T, T][..], 1)]);
ods!(c04_q_repeated_row, [(&[T, F, T][..], 3usize)]);
ods!(c04_q_leading_empty_run, [(&[F][..], 3usize), (&[T, T][..], 1)]);
ods!(c04_q_interior_empty_run_from_a, [(&[T, T][..], 1usize), (&[F][..], 2), (&[T, F][..], 1)]);
ods!(c04_q_interior_empty_run_from_b, [(&[F, T, T][..], 1usize), (&[F][..], 2), (&[F, T][..], 1)]);
ods!(c04_q_interior_empty_len0_from_c, [(&[F, F, T][..], 1usize), (&[][..], 1), (&[F, F, T, T][..], 1)]);
ods!(c04_q_trailing_empty_run, [(&[T, T][..], 1usize), (&[F][..], 3)]);
ods!(c04_q_short_then_long, [(&[T][..], 1usize), (&[F, T, T][..], 1)]);
ods!(c04_q_long_then_short, [(&[T, F, T][..], 1usize), (&[F, T][..], 2)]);
ods!(c04_q_repeat_then_row, [(&[F, T][..], 2usize), (&[T, T][..], 1)]);
ods!(c04_q_all_empty, [(&[F, F][..], 2usize), (&[F][..], 1)]);
ods!(c04_q_lead_and_interior_from_b, [(&[F][..], 2usize), (&[F, T, T][..], 1), (&[F, F][..], 1), (&[F, T][..], 1)]);
ods!(c04_t_three_rows_mixed, [(&[T, T][..], 2usize), (&[F, F, T][..], 1), (&[T][..], 2)]);
ods!(c04_t_two_empty_runs, [(&[F, T][..], 1usize), (&[F][..], 2), (&[F, F][..], 1), (&[F, T, T][..], 1)]);
ods!(c04_t_wide_tail, [(&[F, F, F, T][..], 1usize), (&[F][..], 3), (&[F, F, T, T][..], 2)]);

/// K2 metamorphic: one row with repeat 2 == two explicit copies (same contents), after a first row.
#[kani::proof]
#[kani::unwind(12)]
fn c04_q_repeat_equals_copies() {
    let a: u8 = kani::any();
    let b: u8 = kani::any();
    let x: u8 = kani::any();
    let k = |u: bool, v: u8| KCell { used: u, v };
    let r1 = get_range(vec![k(T, x), k(F, 0), k(T, a), k(T, b)], &[0, 2, 4], &[1, 2]);
    let r2 = get_range(vec![k(T, x), k(F, 0), k(T, a), k(T, b), k(T, a), k(T, b)], &[0, 2, 4, 6], &[1, 1, 1]);
    assert!(r1.start() == r2.start() && r1.end() == r2.end(), "repeated element == explicit copies: bounds");
    assert!(r1.inner.len() == 6 && r2.inner.len() == 6);
    let mut i = 0;
    while i < 6 {
        assert!(r1.inner[i] == r2.inner[i], "repeated element == explicit copies: cells");
        i += 1;
    }
    kani::cover!(true, "end");
    std::mem::forget(r1);
    std::mem::forget(r2);
}

#[kani::proof]
#[kani::unwind(12)]
fn c04_q_twin() {
    let r = get_range(vec![KCell { used: true, v: 1 }, KCell { used: true, v: 2 }], &[0, 2], &[1]);
    std::mem::forget(r);
    assert!(false, "vacuity twin");
}
