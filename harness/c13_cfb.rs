// C13 — compound-file chain following / mini-stream cutoff / header fields. Child module of src/cfb.rs.
#![allow(unused_imports, dead_code)]
use super::*;

const SS: usize = 8; // sector size used by the chain harnesses (Sectors is parametric in its size)
const NS: usize = 4; // sectors loaded

/// Chain placed on the sectors IDS (shape: the placement permutation is concrete per harness, as a symbolic sector id
/// turns every sector access into a symbolic-offset slice and exceeds 8 GB); sector contents, the FAT entries of
/// unused sectors and the stream length are symbolic. Result = logical concatenation truncated to len (0: whole chain).
fn chain_case(ids: &[u32]) {
    let l = ids.len();
    let data: [u8; NS * SS] = kani::any();
    let mut fats: [u32; NS] = kani::any();
    let mut i = 0;
    while i < l {
        fats[ids[i] as usize] = if i + 1 < l { ids[i + 1] } else { ENDOFCHAIN };
        i += 1;
    }
    let len: usize = kani::any();
    kani::assume(len <= l * SS);
    let mut s = Sectors::new(SS, data.to_vec());
    let mut rd: &[u8] = &[];
    let out = s.get_chain(ids[0], &fats, &mut rd, len).unwrap();
    let exp_len = if len > 0 { len } else { l * SS };
    assert!(out.len() == exp_len, "stream is truncated to its declared length");
    i = 0;
    while i < l * SS {
        if i < exp_len {
            let sec = ids[i / SS] as usize;
            assert!(out[i] == data[sec * SS + i % SS], "byte i of the stream is byte i%size of the i/size-th sector of the chain");
        }
        i += 1;
    }
    kani::cover!(len == l * SS - 1, "end");
    std::mem::forget(out);
    std::mem::forget(s);
}

macro_rules! chain {
    ($name:ident, $uw:expr, $ids:expr) => {
        #[kani::proof]
        #[kani::unwind($uw)]
        fn $name() {
            chain_case(&$ids)
        }
    };
}
chain!(c13_q_chain_0, 10, [0u32]);
chain!(c13_q_chain_3, 10, [3u32]);
chain!(c13_q_chain_0_1, 18, [0u32, 1]);
chain!(c13_q_chain_1_0, 18, [1u32, 0]);
chain!(c13_q_chain_3_1, 18, [3u32, 1]);
chain!(c13_q_chain_2_3_0, 26, [2u32, 3, 0]);
chain!(c13_t_chain_0_2, 18, [0u32, 2]);
chain!(c13_t_chain_2_0, 18, [2u32, 0]);
chain!(c13_t_chain_0_3, 18, [0u32, 3]);
chain!(c13_t_chain_3_0, 18, [3u32, 0]);
chain!(c13_t_chain_1_2, 18, [1u32, 2]);
chain!(c13_t_chain_2_1, 18, [2u32, 1]);
chain!(c13_t_chain_1_3, 18, [1u32, 3]);
chain!(c13_t_chain_2_3, 18, [2u32, 3]);
chain!(c13_t_chain_3_2, 18, [3u32, 2]);
chain!(c13_t_chain_0_1_2, 26, [0u32, 1, 2]);
chain!(c13_t_chain_3_2_1, 26, [3u32, 2, 1]);
chain!(c13_t_chain_1_3_0, 26, [1u32, 3, 0]);
chain!(c13_t_chain_0_3_1, 26, [0u32, 3, 1]);
chain!(c13_t_chain_3_0_2_1, 34, [3u32, 0, 2, 1]);

/// Mini-stream cutoff: a directory entry with len < 4096 is read from the mini-stream through the mini-FAT,
/// otherwise from regular sectors through the FAT; `len` is passed through.
fn cutoff_case(start: u32) {
    let reg: [u8; 2 * SS] = kani::any();
    let mini: [u8; 2 * SS] = kani::any();
    let len: usize = kani::any();
    kani::assume(len >= 1 && len <= 8192);
    let mut cfb = Cfb {
        directories: vec![Directory { name: String::from("S"), start, len }],
        sectors: Sectors::new(SS, reg.to_vec()),
        fats: vec![ENDOFCHAIN, ENDOFCHAIN],
        mini_sectors: Sectors::new(SS, mini.to_vec()),
        mini_fats: vec![ENDOFCHAIN, ENDOFCHAIN],
    };
    let mut rd: &[u8] = &[];
    let out = cfb.get_stream("S", &mut rd).unwrap();
    let n = if len < SS { len } else { SS };
    assert!(out.len() == n, "one-sector chain truncated to len");
    let src = if len < 4096 { &mini } else { &reg };
    let mut i = 0;
    while i < SS {
        if i < n {
            assert!(out[i] == src[start as usize * SS + i], "stream shorter than 4096 bytes lives in the mini-stream, others in regular sectors");
        }
        i += 1;
    }
    kani::cover!(len == 4096, "end-regular");
    kani::cover!(len == 4095, "end-mini");
    std::mem::forget(out);
    std::mem::forget(cfb);
}

#[kani::proof]
#[kani::unwind(12)]
fn c13_q_cutoff_start0() {
    cutoff_case(0)
}
#[kani::proof]
#[kani::unwind(12)]
fn c13_q_cutoff_start1() {
    cutoff_case(1)
}

/// Unknown stream name is an error (not some other stream).
#[kani::proof]
#[kani::unwind(12)]
fn c13_q_stream_not_found() {
    let mut cfb = Cfb {
        directories: vec![Directory { name: String::from("S"), start: 0, len: 3 }],
        sectors: Sectors::new(SS, vec![0u8; SS]),
        fats: vec![ENDOFCHAIN],
        mini_sectors: Sectors::new(SS, vec![0u8; SS]),
        mini_fats: vec![ENDOFCHAIN],
    };
    let mut rd: &[u8] = &[];
    let r = cfb.get_stream("T", &mut rd);
    assert!(matches!(r, Err(CfbError::StreamNotFound(_))), "unknown stream name must be StreamNotFound");
    assert!(cfb.has_directory("S") && !cfb.has_directory("T"));
    kani::cover!(true, "end");
    std::mem::forget(r);
    std::mem::forget(cfb);
}

/// Header fields at the MS-CFB offsets, both sector shifts (v3: 512, v4: 4096).
#[kani::proof]
#[kani::unwind(112)]
fn c13_q_header() {
    let mut buf = [0u8; 512];
    let sig = 0xE11A_B1A1_E011_CFD0u64.to_le_bytes();
    let mut i = 0;
    while i < 8 {
        buf[i] = sig[i];
        i += 1;
    }
    let f: [u8; 54] = kani::any(); // bytes 24..78 symbolic (version, shifts, counts, starts, first DIFAT entry)
    i = 0;
    while i < 54 {
        buf[24 + i] = f[i];
        i += 1;
    }
    let shift = u16::from_le_bytes([buf[30], buf[31]]);
    kani::assume(shift == 9); // v4 (0x0C) reads 3584 more bytes: c13_t_header_v4
    let mut rd: &[u8] = &buf;
    let r = Header::from_reader(&mut rd);
    let mini_shift = u16::from_le_bytes([buf[32], buf[33]]);
    match r {
        Ok((ref h, ref difat)) => {
            assert!(mini_shift == 6, "mini sector shift other than 6 accepted");
            assert!(h.sector_size == 512);
            assert!(h.version == u16::from_le_bytes([buf[26], buf[27]]));
            assert!(h.dir_len == u32::from_le_bytes([buf[40], buf[41], buf[42], buf[43]]) as usize);
            assert!(h.fat_len == u32::from_le_bytes([buf[44], buf[45], buf[46], buf[47]]) as usize);
            assert!(h.dir_start == u32::from_le_bytes([buf[48], buf[49], buf[50], buf[51]]), "first directory sector at offset 48");
            assert!(h.mini_fat_start == u32::from_le_bytes([buf[60], buf[61], buf[62], buf[63]]), "first mini FAT sector at offset 60");
            assert!(h.mini_fat_len == u32::from_le_bytes([buf[64], buf[65], buf[66], buf[67]]) as usize);
            assert!(h.difat_start == u32::from_le_bytes([buf[68], buf[69], buf[70], buf[71]]), "first DIFAT sector at offset 68");
            assert!(difat.len() == 109, "109 DIFAT entries in the header");
            assert!(difat[0] == u32::from_le_bytes([buf[76], buf[77], buf[78], buf[79]]), "DIFAT[0] at offset 76");
        }
        Err(ref _e) => assert!(mini_shift != 6, "valid v3 header rejected"),
    }
    kani::cover!(mini_shift == 6, "end");
    std::mem::forget(r);
}

#[kani::proof]
#[kani::unwind(10)]
fn c13_q_twin() {
    let data = [0u8; SS];
    let fats = [ENDOFCHAIN];
    let mut s = Sectors::new(SS, data.to_vec());
    let mut rd: &[u8] = &[];
    let out = s.get_chain(0, &fats, &mut rd, 3).unwrap();
    std::mem::forget(out);
    std::mem::forget(s);
    assert!(false, "vacuity twin");
}
