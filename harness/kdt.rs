// Child of src/datatype.rs: read access to ExcelDateTime's private fields for the harness oracles.
#![allow(dead_code)]
use super::*;

pub(crate) fn edt_parts(t: &ExcelDateTime) -> (u64, bool, bool) {
    (
        t.value.to_bits(),
        matches!(t.datetime_type, ExcelDateTimeType::TimeDelta),
        t.is_1904,
    )
}
