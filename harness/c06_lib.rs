// C06 — hostile geometry: Range constructors. Child module of src/lib.rs.
#![allow(unused_imports, dead_code)]
use super::*;

/// Two cells arbitrarily far apart: from_sparse must not request memory out of proportion (it allocates the dense
/// bounding box: rows x cols cells for 2 cells of input). Bound posed: at most 4096 cells per input cell.
#[kani::proof]
#[kani::unwind(5)]
fn c06_q_lib_from_sparse_two_distant_cells() {
    let r: u32 = kani::any();
    let c: u32 = kani::any();
    kani::assume(r >= 1);
    let cells = vec![Cell::new((0u32, 0u32), 1usize), Cell::new((r, c), 2usize)];
    let rg = Range::from_sparse(cells);
    assert!(rg.inner.capacity() <= 2 * 4096, "from_sparse: memory in proportion to the input");
    kani::cover!(true, "end");
    std::mem::forget(rg);
}
