// C15 — shared-formula reference rewriting. Child module of src/xlsx/mod.rs.
// Templates (formula texts) are concrete; the member offset (dr, dc) is symbolic in 0..=2 x 0..=2; expected text is built
// from the property's rule: relative components move, $ components and non-references stay.
#![allow(unused_imports, dead_code)]
use super::*;
use crate::k_kcommon::*;

fn any_offset() -> (i64, i64) {
    let dr: i64 = kani::any();
    let dc: i64 = kani::any();
    kani::assume(dr >= 0 && dr <= 2 && dc >= 0 && dc <= 2);
    (dr, dc)
}

fn check(got: Result<String, XlsxError>, exp: &TBuf) {
    match got {
        Ok(ref s) => assert!(exp.eq(s.as_bytes()), "member formula = master formula translated by the member's offset"),
        Err(ref _e) => assert!(false, "rewriting a well-formed formula failed"),
    }
    kani::cover!(true, "end");
    std::mem::forget(got);
}

/// "B3" -> column B+dc, row 3+dr
#[kani::proof]
#[kani::unwind(5)]
fn c15_q_single_ref() {
    let (dr, dc) = any_offset();
    let got = replace_cell_names("B3", (dr, dc));
    let mut e = TBuf::new();
    e.ch(b'B' + dc as u8);
    e.ch(b'3' + dr as u8);
    check(got, &e);
}

/// "A1+C2"
#[kani::proof]
#[kani::unwind(5)]
fn c15_x_two_refs() {
    let (dr, dc) = any_offset();
    let got = replace_cell_names("A1+C2", (dr, dc));
    let mut e = TBuf::new();
    e.ch(b'A' + dc as u8);
    e.ch(b'1' + dr as u8);
    e.ch(b'+');
    e.ch(b'C' + dc as u8);
    e.ch(b'2' + dr as u8);
    check(got, &e);
}

/// "$B$3" is fully absolute: unchanged
#[kani::proof]
#[kani::unwind(5)]
fn c15_x_absolute_ref() {
    let (dr, dc) = any_offset();
    let got = replace_cell_names("$B$3", (dr, dc));
    let mut e = TBuf::new();
    e.s(b"$B$3");
    check(got, &e);
}

/// quoted text that looks like a cell is reproduced unchanged; the reference after it moves
#[kani::proof]
#[kani::unwind(5)]
fn c15_x_quoted_text() {
    let (dr, dc) = any_offset();
    let got = replace_cell_names("\"A1\"&B2", (dr, dc));
    let mut e = TBuf::new();
    e.s(b"\"A1\"&");
    e.ch(b'B' + dc as u8);
    e.ch(b'2' + dr as u8);
    check(got, &e);
}

/// function name without digits and an area: "SUM(A1:B2)"
#[kani::proof]
#[kani::unwind(5)]
fn c15_x_function_area() {
    let (dr, dc) = any_offset();
    let got = replace_cell_names("SUM(A1:B2)", (dr, dc));
    let mut e = TBuf::new();
    e.s(b"SUM(");
    e.ch(b'A' + dc as u8);
    e.ch(b'1' + dr as u8);
    e.ch(b':');
    e.ch(b'B' + dc as u8);
    e.ch(b'2' + dr as u8);
    e.ch(b')');
    check(got, &e);
}

/// mixed reference "$B3": column absolute, row relative -> "$B" + (3+dr)
#[kani::proof]
#[kani::unwind(5)]
fn c15_x_mixed_col_absolute() {
    let (dr, dc) = any_offset();
    let got = replace_cell_names("$B3", (dr, dc));
    let mut e = TBuf::new();
    e.s(b"$B");
    e.ch(b'3' + dr as u8);
    check(got, &e);
}

/// mixed reference "B$3": column relative, row absolute -> (B+dc) + "$3"
#[kani::proof]
#[kani::unwind(5)]
fn c15_x_mixed_row_absolute() {
    let (dr, dc) = any_offset();
    let got = replace_cell_names("B$3", (dr, dc));
    let mut e = TBuf::new();
    e.ch(b'B' + dc as u8);
    e.s(b"$3");
    check(got, &e);
}

/// function name with a digit: "LOG10(A1)" -> only A1 moves
#[kani::proof]
#[kani::unwind(5)]
fn c15_x_function_with_digit() {
    let (dr, dc) = any_offset();
    let got = replace_cell_names("LOG10(A1)", (dr, dc));
    let mut e = TBuf::new();
    e.s(b"LOG10(");
    e.ch(b'A' + dc as u8);
    e.ch(b'1' + dr as u8);
    e.ch(b')');
    check(got, &e);
}

/// sheet-qualified reference "Tab1!A1": the sheet name stays
#[kani::proof]
#[kani::unwind(5)]
fn c15_x_sheet_qualified() {
    let (dr, dc) = any_offset();
    let got = replace_cell_names("Tab1!A1", (dr, dc));
    let mut e = TBuf::new();
    e.s(b"Tab1!");
    e.ch(b'A' + dc as u8);
    e.ch(b'1' + dr as u8);
    check(got, &e);
}

/// K2: column_number_to_name is bijective base-26 for every column of the sheet (one query per letter count).
fn colname_case(lo: u32, hi: u32, l: usize) {
    let col: u32 = kani::any();
    kani::assume(col >= lo && col < hi);
    let name = column_number_to_name(col).unwrap();
    let mut e = TBuf::new();
    e.col(col, l);
    assert!(name.len() == l, "letter count");
    let mut i = 0;
    while i < l {
        assert!(name[i] == e.b[i], "column_number_to_name renders bijective base-26 letters");
        i += 1;
    }
    kani::cover!(col == hi - 1, "end");
    std::mem::forget(name);
}

#[kani::proof]
#[kani::unwind(3)]
fn c15_q_colname_1_letter() {
    colname_case(0, 26, 1)
}
#[kani::proof]
#[kani::unwind(4)]
fn c15_q_colname_2_letters() {
    colname_case(26, 702, 2)
}
#[kani::proof]
#[kani::unwind(5)]
fn c15_q_colname_3_letters() {
    colname_case(702, 16384, 3)
}

#[kani::proof]
#[kani::unwind(8)]
fn c15_q_colname_overflow() {
    let col: u32 = kani::any();
    kani::assume(col >= 16384);
    let r = column_number_to_name(col);
    assert!(r.is_err(), "columns beyond XFD are rejected");
    kani::cover!(true, "end");
    std::mem::forget(r);
}

/// a formula ending in a defined name: "B3*T" -> only B3 moves, the name stays (row offset symbolic)
#[kani::proof]
#[kani::unwind(5)]
fn c15_q_trailing_name_dr_only() {
    let dr: i64 = kani::any();
    kani::assume(dr >= 0 && dr <= 2);
    let got = replace_cell_names("B3*T", (dr, 0));
    let mut e = TBuf::new();
    e.ch(b'B');
    e.ch(b'3' + dr as u8);
    e.s(b"*T");
    check(got, &e);
}

/// one offset dimension symbolic at a time (cheaper queries, same template)
#[kani::proof]
#[kani::unwind(5)]
fn c15_q_single_ref_dr_only() {
    let dr: i64 = kani::any();
    kani::assume(dr >= 0 && dr <= 2);
    let got = replace_cell_names("B3", (dr, 1));
    let mut e = TBuf::new();
    e.ch(b'C');
    e.ch(b'3' + dr as u8);
    check(got, &e);
}
#[kani::proof]
#[kani::unwind(5)]
fn c15_q_single_ref_dc_only() {
    let dc: i64 = kani::any();
    kani::assume(dc >= 0 && dc <= 2);
    let got = replace_cell_names("B3", (1, dc));
    let mut e = TBuf::new();
    e.ch(b'B' + dc as u8);
    e.ch(b'4');
    check(got, &e);
}

#[kani::proof]
#[kani::unwind(5)]
fn c15_q_twin() {
    let got = replace_cell_names("B3", (1, 1));
    std::mem::forget(got);
    assert!(false, "vacuity twin");
}
