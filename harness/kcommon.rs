// Shared helpers for all harness modules (compiled only under cfg(kani); child of the crate root).
#![allow(dead_code, unused_imports)]
use crate::datatype::k_kdt::edt_parts;
use crate::formats::CellFormat;
use crate::{CellErrorType, Data, DataRef};

/// Value summary of a `Data` that can be compared without touching heap contents.
#[derive(PartialEq, Clone, Copy, Debug)]
pub(crate) enum DSum {
    Int(i64),
    Float(u64),
    Bool(bool),
    Err(u8),
    /// (serial bits, is elapsed/TimeDelta flavour, is_1904)
    Dt(u64, bool, bool),
    Empty,
    Str(usize),
    Iso,
    DurIso,
}

pub(crate) fn err_code(e: &CellErrorType) -> u8 {
    match e {
        CellErrorType::Null => 0x00,
        CellErrorType::Div0 => 0x07,
        CellErrorType::Value => 0x0F,
        CellErrorType::Ref => 0x17,
        CellErrorType::Name => 0x1D,
        CellErrorType::Num => 0x24,
        CellErrorType::NA => 0x2A,
        CellErrorType::GettingData => 0x2B,
    }
}

pub(crate) fn dsum(d: &Data) -> DSum {
    match d {
        Data::Int(i) => DSum::Int(*i),
        Data::Float(f) => DSum::Float(f.to_bits()),
        Data::Bool(b) => DSum::Bool(*b),
        Data::Error(e) => DSum::Err(err_code(e)),
        Data::DateTime(t) => {
            let (v, delta, e1904) = edt_parts(t);
            DSum::Dt(v, delta, e1904)
        }
        Data::Empty => DSum::Empty,
        Data::String(s) => DSum::Str(s.len()),
        Data::DateTimeIso(_) => DSum::Iso,
        Data::DurationIso(_) => DSum::DurIso,
    }
}

pub(crate) fn dsum_ref(d: &DataRef<'_>) -> DSum {
    match d {
        DataRef::Int(i) => DSum::Int(*i),
        DataRef::Float(f) => DSum::Float(f.to_bits()),
        DataRef::Bool(b) => DSum::Bool(*b),
        DataRef::Error(e) => DSum::Err(err_code(e)),
        DataRef::DateTime(t) => {
            let (v, delta, e1904) = edt_parts(t);
            DSum::Dt(v, delta, e1904)
        }
        DataRef::Empty => DSum::Empty,
        DataRef::String(s) => DSum::Str(s.len()),
        DataRef::SharedString(s) => DSum::Str(s.len()),
        DataRef::DateTimeIso(_) => DSum::Iso,
        DataRef::DurationIso(_) => DSum::DurIso,
    }
}

/// Symbolic `CellFormat` (the type has no Arbitrary impl).
pub(crate) fn any_format() -> CellFormat {
    let k: u8 = kani::any();
    kani::assume(k < 3);
    match k {
        0 => CellFormat::Other,
        1 => CellFormat::DateTime,
        _ => CellFormat::TimeDelta,
    }
}

/// Reference wrapping of a float by an optional format (documented mapping of C10).
pub(crate) fn wrap_f(bits: u64, f: Option<CellFormat>, is_1904: bool) -> DSum {
    match f {
        Some(CellFormat::DateTime) => DSum::Dt(bits, false, is_1904),
        Some(CellFormat::TimeDelta) => DSum::Dt(bits, true, is_1904),
        _ => DSum::Float(bits),
    }
}

pub(crate) fn wrap_i(v: i64, f: Option<CellFormat>, is_1904: bool) -> DSum {
    match f {
        Some(CellFormat::DateTime) => DSum::Dt((v as f64).to_bits(), false, is_1904),
        Some(CellFormat::TimeDelta) => DSum::Dt((v as f64).to_bits(), true, is_1904),
        _ => DSum::Int(v),
    }
}

pub(crate) fn fmt_at(formats: &[CellFormat], i: usize) -> Option<CellFormat> {
    if i < formats.len() {
        Some(formats[i])
    } else {
        None
    }
}

/// Bijective base-26 letters of a 0-based column, written into `out`; returns the length.
pub(crate) fn ref_col_letters(col: u32, out: &mut [u8; 8]) -> usize {
    let mut tmp = [0u8; 8];
    let mut n = 0;
    let mut c = col as u64 + 1;
    while c > 0 {
        let r = ((c - 1) % 26) as u8;
        tmp[n] = b'A' + r;
        n += 1;
        c = (c - 1) / 26;
    }
    let mut i = 0;
    while i < n {
        out[i] = tmp[n - 1 - i];
        i += 1;
    }
    n
}

/// Decimal digits of v written into out; returns length.
pub(crate) fn ref_decimal(v: u64, out: &mut [u8; 24]) -> usize {
    let mut tmp = [0u8; 24];
    let mut n = 0;
    let mut t = v;
    if t == 0 {
        out[0] = b'0';
        return 1;
    }
    while t > 0 {
        tmp[n] = b'0' + (t % 10) as u8;
        n += 1;
        t /= 10;
    }
    let mut i = 0;
    while i < n {
        out[i] = tmp[n - 1 - i];
        i += 1;
    }
    n
}

/// Fixed-capacity expected-text builder for the formula/lettering oracles.
pub(crate) struct TBuf {
    pub b: [u8; 64],
    pub n: usize,
}

impl TBuf {
    pub(crate) fn new() -> Self {
        TBuf { b: [0u8; 64], n: 0 }
    }
    pub(crate) fn ch(&mut self, c: u8) {
        self.b[self.n] = c;
        self.n += 1;
    }
    pub(crate) fn s(&mut self, t: &[u8]) {
        let mut i = 0;
        while i < t.len() {
            self.ch(t[i]);
            i += 1;
        }
    }
    /// Column letters when the letter count `l` (1..=4) is known (shape): closed-form bijective base-26,
    /// so every index written is concrete.
    pub(crate) fn col(&mut self, col: u32, l: usize) {
        let first = [0u32, 26, 702, 18278];
        let x = col - first[l - 1];
        match l {
            1 => self.ch(b'A' + x as u8),
            2 => {
                self.ch(b'A' + (x / 26) as u8);
                self.ch(b'A' + (x % 26) as u8);
            }
            3 => {
                self.ch(b'A' + (x / 676) as u8);
                self.ch(b'A' + ((x / 26) % 26) as u8);
                self.ch(b'A' + (x % 26) as u8);
            }
            _ => {
                self.ch(b'A' + (x / 17576) as u8);
                self.ch(b'A' + ((x / 676) % 26) as u8);
                self.ch(b'A' + ((x / 26) % 26) as u8);
                self.ch(b'A' + (x % 26) as u8);
            }
        }
    }
    /// Decimal rendering of `v` with exactly `digits` digits (shape; caller assumes the range).
    pub(crate) fn dec(&mut self, v: u64, digits: usize) {
        let mut p = 1u64;
        let mut i = 1;
        while i < digits {
            p *= 10;
            i += 1;
        }
        i = 0;
        while i < digits {
            self.ch(b'0' + ((v / p) % 10) as u8);
            p /= 10;
            i += 1;
        }
    }
    /// byte-wise equality with `got` (explicit loop: slice == is a memcmp the unwinder must cover anyway)
    pub(crate) fn eq(&self, got: &[u8]) -> bool {
        if got.len() != self.n {
            return false;
        }
        let mut i = 0;
        let mut ok = true;
        while i < self.n {
            if got[i] != self.b[i] {
                ok = false;
            }
            i += 1;
        }
        ok
    }
}

// ---- compositional models of utils::push_column (C14-K1 decides push_column == bijective base-26 for every
// column of each letter count; the token-rendering harnesses use these models in its place via #[kani::stub],
// because String::extend(chars().rev()) costs minutes and ~10 GB per call under CBMC).
fn model_push_letters(buf: &mut String, l: &[u8]) {
    let v = unsafe { buf.as_mut_vec() };
    let mut i = 0;
    while i < l.len() {
        v.push(l[i]);
        i += 1;
    }
}
pub(crate) fn model_push_column_l1(col: u32, buf: &mut String) {
    assert!(col < 26, "model_push_column_l1: column outside the 1-letter shape");
    model_push_letters(buf, &[b'A' + col as u8]);
}
pub(crate) fn model_push_column_l2(col: u32, buf: &mut String) {
    assert!(col >= 26 && col < 702, "model_push_column_l2: column outside the 2-letter shape");
    let x = col - 26;
    model_push_letters(buf, &[b'A' + (x / 26) as u8, b'A' + (x % 26) as u8]);
}
pub(crate) fn model_push_column_l3(col: u32, buf: &mut String) {
    assert!(col >= 702 && col < 18278, "model_push_column_l3: column outside the 3-letter shape");
    let x = col - 702;
    model_push_letters(buf, &[b'A' + (x / 676) as u8, b'A' + ((x / 26) % 26) as u8, b'A' + (x % 26) as u8]);
}

// ---- model of encoding_rs::Encoding::decode used by the string harnesses (C12, C03): third-party decoder, stubbed.
// UTF-16LE, BMP/ASCII only: every code unit (lo, hi) becomes the char `lo & 0x7F`; harnesses assume hi == 0, lo < 0x80.
pub(crate) fn model_utf16_decode<'a>(
    e: &'static encoding_rs::Encoding,
    bytes: &'a [u8],
) -> (std::borrow::Cow<'a, str>, &'static encoding_rs::Encoding, bool) {
    let mut s = String::with_capacity(8);
    let v = unsafe { s.as_mut_vec() };
    let mut i = 0;
    while i + 1 < bytes.len() {
        v.push(bytes[i] & 0x7F);
        i += 2;
    }
    (std::borrow::Cow::Owned(s), e, false)
}

/// Single-byte (ASCII subset) model of encoding_rs::Encoding::decode for the MBCS name records of the VBA dir stream.
pub(crate) fn model_sbcs_decode<'a>(
    e: &'static encoding_rs::Encoding,
    bytes: &'a [u8],
) -> (std::borrow::Cow<'a, str>, &'static encoding_rs::Encoding, bool) {
    let mut s = String::with_capacity(8);
    let v = unsafe { s.as_mut_vec() };
    let mut i = 0;
    while i < bytes.len() {
        v.push(bytes[i] & 0x7F);
        i += 1;
    }
    (std::borrow::Cow::Owned(s), e, false)
}
