// Shared helpers for all harness modules (compiled only under cfg(kani); child of the crate root).
#![allow(dead_code, unused_imports)]
use crate::datatype::k_kdt::edt_parts;
use crate::formats::CellFormat;
use crate::{CellErrorType, Data, DataRef};

/// Value summary of a `Data` that can be compared without touching heap contents.
#[derive(PartialEq, Clone, Copy, Debug)]
pub(crate) enum DSum {
    Int(i64),
    Float(u64),
    Bool(bool),
    Err(u8),
    /// (serial bits, is elapsed/TimeDelta flavour, is_1904)
    Dt(u64, bool, bool),
    Empty,
    Str(usize),
    Iso,
    DurIso,
}

pub(crate) fn err_code(e: &CellErrorType) -> u8 {
    match e {
        CellErrorType::Null => 0x00,
        CellErrorType::Div0 => 0x07,
        CellErrorType::Value => 0x0F,
        CellErrorType::Ref => 0x17,
        CellErrorType::Name => 0x1D,
        CellErrorType::Num => 0x24,
        CellErrorType::NA => 0x2A,
        CellErrorType::GettingData => 0x2B,
    }
}

pub(crate) fn dsum(d: &Data) -> DSum {
    match d {
        Data::Int(i) => DSum::Int(*i),
        Data::Float(f) => DSum::Float(f.to_bits()),
        Data::Bool(b) => DSum::Bool(*b),
        Data::Error(e) => DSum::Err(err_code(e)),
        Data::DateTime(t) => {
            let (v, delta, e1904) = edt_parts(t);
            DSum::Dt(v, delta, e1904)
        }
        Data::Empty => DSum::Empty,
        Data::String(s) => DSum::Str(s.len()),
        Data::DateTimeIso(_) => DSum::Iso,
        Data::DurationIso(_) => DSum::DurIso,
    }
}

pub(crate) fn dsum_ref(d: &DataRef<'_>) -> DSum {
    match d {
        DataRef::Int(i) => DSum::Int(*i),
        DataRef::Float(f) => DSum::Float(f.to_bits()),
        DataRef::Bool(b) => DSum::Bool(*b),
        DataRef::Error(e) => DSum::Err(err_code(e)),
        DataRef::DateTime(t) => {
            let (v, delta, e1904) = edt_parts(t);
            DSum::Dt(v, delta, e1904)
        }
        DataRef::Empty => DSum::Empty,
        DataRef::String(s) => DSum::Str(s.len()),
        DataRef::SharedString(s) => DSum::Str(s.len()),
        DataRef::DateTimeIso(_) => DSum::Iso,
        DataRef::DurationIso(_) => DSum::DurIso,
    }
}

/// Symbolic `CellFormat` (the type has no Arbitrary impl).
pub(crate) fn any_format() -> CellFormat {
    let k: u8 = kani::any();
    kani::assume(k < 3);
    match k {
        0 => CellFormat::Other,
        1 => CellFormat::DateTime,
        _ => CellFormat::TimeDelta,
    }
}

/// Reference wrapping of a float by an optional format (documented mapping of C10).
pub(crate) fn wrap_f(bits: u64, f: Option<CellFormat>, is_1904: bool) -> DSum {
    match f {
        Some(CellFormat::DateTime) => DSum::Dt(bits, false, is_1904),
        Some(CellFormat::TimeDelta) => DSum::Dt(bits, true, is_1904),
        _ => DSum::Float(bits),
    }
}

pub(crate) fn wrap_i(v: i64, f: Option<CellFormat>, is_1904: bool) -> DSum {
    match f {
        Some(CellFormat::DateTime) => DSum::Dt((v as f64).to_bits(), false, is_1904),
        Some(CellFormat::TimeDelta) => DSum::Dt((v as f64).to_bits(), true, is_1904),
        _ => DSum::Int(v),
    }
}

pub(crate) fn fmt_at(formats: &[CellFormat], i: usize) -> Option<CellFormat> {
    if i < formats.len() {
        Some(formats[i])
    } else {
        None
    }
}

/// Bijective base-26 letters of a 0-based column, written into `out`; returns the length.
pub(crate) fn ref_col_letters(col: u32, out: &mut [u8; 8]) -> usize {
    let mut tmp = [0u8; 8];
    let mut n = 0;
    let mut c = col as u64 + 1;
    while c > 0 {
        let r = ((c - 1) % 26) as u8;
        tmp[n] = b'A' + r;
        n += 1;
        c = (c - 1) / 26;
    }
    let mut i = 0;
    while i < n {
        out[i] = tmp[n - 1 - i];
        i += 1;
    }
    n
}

/// Decimal digits of v written into out; returns length.
pub(crate) fn ref_decimal(v: u64, out: &mut [u8; 24]) -> usize {
    let mut tmp = [0u8; 24];
    let mut n = 0;
    let mut t = v;
    if t == 0 {
        out[0] = b'0';
        return 1;
    }
    while t > 0 {
        tmp[n] = b'0' + (t % 10) as u8;
        n += 1;
        t /= 10;
    }
    let mut i = 0;
    while i < n {
        out[i] = tmp[n - 1 - i];
        i += 1;
    }
    n
}
